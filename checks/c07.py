"""C07: resource limits are enforced, tail calls run in constant stack, interrupts stop a program.
MemLimit.tla (allocation accounting contract, exhaustive) and VMFrames.tla (frame shape machine: stack limit at every
entry, DepthBound, TailCallNoGrowth, exhaustive in small bounds); TailCtx.tla enumerates the tail-position contexts.
Real runs are bound by trace validation: frame events against Trace_VMFrames.tla, gc events against
Trace_MemLimit.tla; plus sweeps of stack / memory limits and an interrupt from another OS thread."""
import json, os, random, re, time
import vlib

PID = "C07"
HDR = "let { Option } = import! std.option\nlet none : Option Int = None\n"


def ctx_apply(c, K, ty, level):
    ind = " " * (8 + 4 * level)
    zero = "0" if ty == "Int" else "False"
    if c == "if-then":
        return "(if n > (0 - 1) then %s else %s)" % (K, zero)
    if c == "if-else":
        return "(if n < 0 then %s else %s)" % (zero, K)
    if c == "match-some":
        return "(match Some n with\n%s| Some _ -> %s\n%s| None -> %s)" % (ind, K, ind, zero)
    if c == "match-none":
        return "(match none with\n%s| Some _ -> %s\n%s| None -> %s)" % (ind, zero, ind, K)
    if c == "match-lit":
        return "(match 1 with\n%s| 0 -> %s\n%s| _ -> %s)" % (ind, zero, ind, K)
    if c == "let-body":
        return "(let t = n + 1 in %s)" % K
    if c == "letrec-body":
        return "(rec let g x = x + n in %s)" % K
    if c == "block":
        return "(let _ = n in %s)" % K
    if c == "or-rhs":
        return "((n < 0) || %s)" % K
    if c == "and-rhs":
        return "((n > (0 - 1)) && %s)" % K
    raise ValueError(c)


def loop_src(ctx, ty, shape, n):
    """the recursive call sits in the composition of the contexts (innermost last)"""
    if ty == "Int":
        call = {"direct": "loop (n - 1) (acc + 1)", "mutual": "loop2 (n - 1) (acc + 1)", "closure": "k (n - 1)", "overapply": "loop (n - 1) (acc + 1)"}[shape]
    else:
        call = {"direct": "loop (n - 1) acc", "mutual": "loop2 (n - 1) acc", "closure": "k (n - 1)", "overapply": "loop (n - 1) acc"}[shape]
    K = call
    for level, c in reversed(list(enumerate(ctx))):
        K = ctx_apply(c, K, ty, level)
    base = "acc" if ty == "Int" else "False"
    rt = "Int" if ty == "Int" else "Bool"
    body = "if n == 0 then %s else %s" % (base, K)
    if shape == "direct":
        fn = "rec let loop n acc : Int -> Int -> %s =\n    %s\n" % (rt, body)
    elif shape == "mutual":
        fn = "rec\nlet loop n acc : Int -> Int -> %s =\n    %s\nlet loop2 n acc : Int -> Int -> %s = loop n acc\n" % (rt, body, rt)
    elif shape == "closure":
        inner = "loop m (acc + 1)" if ty == "Int" else "loop m acc"
        fn = "rec let loop n acc : Int -> Int -> %s =\n    let k = \\m -> %s\n    %s\n" % (rt, inner, body)
    else:
        fn = "rec let loop n : Int -> Int -> %s =\n    \\acc -> %s\n" % (rt, body)
    return HDR + fn + "loop %d 0\n" % n


ALLOC = {
    "list": "let list @ { List } = import! std.list\nrec let build n acc = if n == 0 then acc else build (n - 1) (Cons n acc)\nrec let len l acc =\n    match l with\n    | Cons _ r -> len r (acc + 1)\n    | Nil -> acc\nlen (build %d Nil) 0\n",
    "array": "let array = import! std.array.prim\nrec let build n acc = if n == 0 then acc else build (n - 1) (array.append acc [n])\narray.len (build %d [])\n",
    "records": "type R = { a : Int, b : Option R, c : Int }\nrec let build n acc : Int -> R -> Int = if n == 0 then acc.a else build (n - 1) { a = acc.a + 1, b = Some acc, c = n }\nbuild %d { a = 0, b = None, c = 0 }\n",
    "closures": "rec let build n f = if n == 0 then f 0 else build (n - 1) (\\x -> f (x + 1))\nbuild %d (\\x -> x)\n",
    "strings": "let string = import! std.string.prim\nrec let build n acc = if n == 0 then string.len acc else build (n - 1) (string.append acc \"ab\")\nbuild %d \"\"\n",
}
NEAR_LIMIT = {
    "array-index": "let array = import! std.array.prim\nrec let build n acc = if n == 0 then acc else build (n - 1) (array.append acc [n])\narray.index (build 12 []) 100000\n",
    "string-char-at": "let string = import! std.string.prim\nrec let build n acc = if n == 0 then acc else build (n - 1) (string.append acc \"ab\")\nstring.char_at (build 24 \"\") 100000\n",
    "string-slice": "let string = import! std.string.prim\nrec let build n acc = if n == 0 then acc else build (n - 1) (string.append acc \"é\")\nstring.len (string.slice (build 24 \"\") 1 2)\n",
}
RECUR = {
    "nontail": "rec let f n = if n == 0 then 0 else 1 + f (n - 1)\nf %d\n",
    "nontail-mutual": "rec\nlet f n = if n == 0 then 0 else 1 + g (n - 1)\nlet g n = if n == 0 then 0 else 2 + f (n - 1)\nf %d\n",
    "nontail-closure": "rec let f n = if n == 0 then 0 else (let k = \\m -> f m in 1 + k (n - 1))\nf %d\n",
    "nontail-match": "rec let f n =\n    match n with\n    | 0 -> 0\n    | _ -> 1 + f (n - 1)\nf %d\n",
}


def validate(spec, cfg, events, name, env_extra=None):
    wd = vlib.workdir("c07-" + name)
    path = os.path.join(wd, "trace.ndjson")
    with open(path, "w") as f:
        for e in events:
            f.write(json.dumps(e) + "\n")
    r = vlib.run_tlc(spec, cfg, workers=1, timeout=900, env={"TRACE": path}, dfs=True, xss="1g", xmx="4g", name="c07-" + name)
    m = re.search(r"TRACE REJECTED at event[^\d]*(\d+)", r.out)
    return r.violation is None, (int(m.group(1)) if m else None), r


def run(tier):
    t0 = time.time()
    seed = vlib.seed()
    rnd = random.Random(seed)
    vlib.build_harness()
    V = vlib.Verdicts(PID)
    # ---- models
    m1 = vlib.run_tlc("MemLimit", "MC_MemLimit", workers=4, timeout=600)
    m2 = vlib.run_tlc("MemLimit", "MC_MemLimit_AsCoded", workers=4, timeout=600)       # prediction: the coded guard overshoots
    m3 = vlib.run_tlc("MemLimit", "MC_MemLimit_AsCodedBound", workers=4, timeout=600)
    fr_cfg = open(os.path.join(vlib.SPEC, "MC_VMFrames.cfg")).read()
    if tier == "quick":
        fr_cfg = fr_cfg.replace("MaxDepth = 4", "MaxDepth = 3")
    open(os.path.join(vlib.SPEC, "_c07_frames.cfg"), "w").write(fr_cfg)
    m4 = vlib.run_tlc("VMFrames", "_c07_frames", workers=8, timeout=1800)
    os.remove(os.path.join(vlib.SPEC, "_c07_frames.cfg"))
    for m, nm in ((m1, "MemLimit"), (m3, "MemLimit(as coded) OvershootBound"), (m4, "VMFrames")):
        if m.violation:
            V.violation("model:%s:%s" % (nm, m.violation), "%s violates %s" % (nm, m.violation), {"trace": m.trace})
    tc_cfg = "SPECIFICATION Spec\nCONSTANTS\n  MaxDepth = %d\n  Emit = TRUE\nINVARIANTS AllTail EmitCtx\nCHECK_DEADLOCK FALSE\n" % (2 if tier == "quick" else 3)
    open(os.path.join(vlib.SPEC, "_c07_tail.cfg"), "w").write(tc_cfg)
    m5 = vlib.run_tlc("TailCtx", "_c07_tail", workers=4, timeout=900, print_prefix='"CTX"')
    os.remove(os.path.join(vlib.SPEC, "_c07_tail.cfg"))
    ctxs = [c for c in (vlib.tlc_value_to_json(l) for l in m5.prints) if c]
    if tier == "quick" and len(ctxs) > 260:
        keep = [c for c in ctxs if len(c["ctx"]) <= 1]
        rest = [c for c in ctxs if len(c["ctx"]) > 1]
        ctxs = keep + rnd.sample(rest, 260 - len(keep))
    # ---- tail calls: traced short run + long run under a small stack limit
    jobs, meta = [], {}
    BIGN = 100000
    for c in ctxs:
        for n, extra in ((60, {"events": "frames"}), (1000, {"stack_limit": 4096}), (BIGN, {"stack_limit": 4096})):
            j = {"id": len(jobs), "src": loop_src(c["ctx"], c["ty"], c["shape"], n), "fresh": False, "warmup": HDR + "1 + 1\n"}
            j.update(extra)
            meta[j["id"]] = ("tail", c, n)
            jobs.append(j)
    # ---- non-tail recursion x stack limits, allocation x memory limits
    for name, tmpl in RECUR.items():
        for lim in ([64, 512, 4096, 1000000] if tier == "quick" else [32, 64, 128, 512, 1024, 4096, 65536, 1000000]):
            for n in (50, 100000):
                j = {"id": len(jobs), "src": tmpl % n, "stack_limit": lim, "fresh": True, "warmup": "1 + 1\n"}
                if n == 50:
                    j["events"] = "frames"
                meta[j["id"]] = ("recur", name, (n, lim))
                jobs.append(j)
    for name, tmpl in ALLOC.items():
        for lim in ([200, 2000, 20000, 200000] if tier == "quick" else [100, 200, 500, 1000, 2000, 5000, 20000, 50000, 200000, 1000000]):
            for n in (40, 400):
                j = {"id": len(jobs), "src": tmpl % n, "memory_limit_rel": lim, "fresh": True, "events": "gc",
                     "warmup": (tmpl % 1)}
                meta[j["id"]] = ("alloc", name, (n, lim))
                jobs.append(j)
    # ---- a primitive fails while the thread is close to its memory limit: the error must still reach the program
    # (fine sweep of the room that is left when the failing call is made)
    for name, src in NEAR_LIMIT.items():
        for lim in range(3600, 7600, 16 if tier == "quick" else 8):
            j = {"id": len(jobs), "src": src, "memory_limit_rel": lim, "fresh": True, "warmup": "1 + 1\n"}
            meta[j["id"]] = ("nearlimit", name, lim)
            jobs.append(j)
    # ---- interrupt
    spin = "rec let spin n = spin (n + 1)\nspin 0\n"
    for k in range(3):
        j = {"id": len(jobs), "src": spin, "interrupt_ms": 200, "fresh": True}
        meta[j["id"]] = ("interrupt", "spin", k)
        jobs.append(j)
    vlib.log("[C07] %d tail contexts, %d runs" % (len(ctxs), len(jobs)))
    res = vlib.run_pool(["lang"], jobs, workers=14, job_timeout=90)
    frame_events, gc_runs = [], []
    peaks = {}
    tail_ok = 0
    for j in jobs:
        r = res.get(j["id"])
        if r is None:
            continue
        kind, what, par = meta[j["id"]]
        rep = {"src": j["src"], "job": {k: v for k, v in j.items() if k not in ("src", "warmup")}, "observed": {k: r.get(k) for k in ("status", "value", "msg", "class", "peak", "frames", "slen", "allocated", "limit")}}
        if r["status"] in ("panic", "crash", "hang"):
            label = what["shape"] if kind == "tail" else what
            V.violation("%s:%s:%s" % (kind, label, r["status"]), "%s: the program %s the host (limit %s): %s" % (kind, r["status"], par, r["msg"][-400:]), rep)
            continue
        if kind == "tail":
            c, n = what, par
            key = json.dumps(c, sort_keys=True)
            want = str(n) if c["ty"] == "Int" else "{0}"
            cname = "%s/%s/%s" % (c["ty"], c["shape"], "+".join(c["ctx"]) or "-")
            if r["status"] != "ok":
                V.violation("tail:%s:%s" % (cname, r.get("class")), "a loop whose recursive call is in tail position (%s) failed after %d iterations: %s\n%s" % (cname, n, r["msg"][:200], j["src"]), rep)
                continue
            if r["value"] != want:
                V.violation("tail:%s:wrong-value" % cname, "loop returned %s instead of %s\n%s" % (r["value"], want, j["src"]), rep)
                continue
            peaks.setdefault(key, {})[n] = r["peak"]
            if n == 60:
                frame_events.append((cname, r["events"], j["src"]))
            if n == BIGN and 1000 in peaks[key]:
                if r["peak"] > peaks[key][1000] + 8:
                    V.violation("tail:%s:stack-grows" % cname, "peak stack use grows with the number of iterations (%d slots for 1000, %d for %d): the call is not executed as a tail call\n%s" % (peaks[key][1000], r["peak"], n, j["src"]), rep)
                else:
                    tail_ok += 1
        elif kind == "recur":
            n, lim = par
            if r["status"] == "ok":
                exp = str(n) if what != "nontail-mutual" else None
                if exp and r["value"] != exp:
                    V.violation("recur:%s:wrong-value" % what, "f %d = %s under stack limit %d" % (n, r["value"], lim), rep)
                if r["peak"] > lim:
                    V.violation("recur:%s:stack-over-limit" % what, "peak stack %d above the limit %d although the program completed" % (r["peak"], lim), rep)
            elif r.get("class") != "stackoverflow":
                V.violation("recur:%s:wrong-error:%s" % (what, r.get("class")), "non-tail recursion of depth %d under stack limit %d failed with %s" % (n, lim, r["msg"][:200]), rep)
            if n == 50:
                frame_events.append(("recur/%s/%d" % (what, lim), r["events"], j["src"]))
        elif kind == "alloc":
            n, lim = par
            if r["status"] != "ok" and r.get("class") != "oom":
                V.violation("alloc:%s:wrong-error:%s" % (what, r.get("class")), "allocation-heavy program under memory limit base+%d failed with %s" % (lim, r["msg"][:200]), rep)
            gc_runs.append(("%s/%d/%d" % (what, n, lim), r["events"], j["src"], rep))
        elif kind == "nearlimit":
            if r["status"] == "ok":
                V.violation("nearlimit:%s:no-error" % what, "the failing primitive call returned %s under memory limit base+%d" % (r["value"], par), rep)
            elif r.get("class") not in ("oom", "index", "other"):
                V.violation("nearlimit:%s:wrong-error:%s" % (what, r.get("class")), "under memory limit base+%d: %s" % (par, r["msg"][:200]), rep)
        elif kind == "interrupt":
            if r.get("class") != "interrupted":
                V.violation("interrupt:not-stopped:%s" % r["status"], "a spinning program did not stop with Interrupted after interrupt(): %s %s" % (r["status"], r["msg"][:200]), rep)
            elif r["elapsed_ms"] > 2500:
                V.violation("interrupt:late", "interrupt took %d ms to stop the program" % r["elapsed_ms"], rep)
    # ---- trace validation: frames (all runs in one trace, `base` events separate the runs)
    allf, index = [], []
    for name, evs, src in frame_events:
        index.append((len(allf) + 1, name, src))
        allf.extend(evs)
    fr_ok, at, tvr = validate("Trace_VMFrames", "Trace_VMFrames", allf, "frames") if allf else (True, None, None)
    if not fr_ok:
        name, src = "?", ""
        for start, nm, s in index:
            if at is not None and start <= at:
                name, src = nm, s
        ev = allf[at - 1] if at and at <= len(allf) else {}
        V.violation("frames-trace:%s:%s" % (ev.get("ev"), name.split("/")[0] + "/" + name.split("/")[1] if "/" in name else name),
                    "Trace_VMFrames rejects event %s of the run `%s`: %s (stack limit at entry, DepthBound, TailCallNoGrowth, OffsetsMonotone)\n%s" % (at, name, json.dumps(ev), src),
                    {"events": allf[max(0, (at or 1) - 30):(at or 1) + 2], "src": src})
    # ---- trace validation: gc accounting.  All runs are concatenated (a `base` event starts each) and validated by TLC
    # against the contract; a run the contract rejects is validated again on its own, also against the `report` variant
    strict_rej = report_rej = 0
    prepared = []
    for name, evs, src, rep in gc_runs:
        evs = [dict(e) for e in evs if e["ev"] in ("base", "alloc", "oom", "free")]
        # only the heap of the running thread has a limit: keep its events
        heaps = {e.get("heap") for e in evs if e.get("limit", -1) >= 0}
        evs = [e for e in evs if e["ev"] == "base" or e.get("heap") in heaps]
        if len(evs) < 2 or evs[0]["ev"] != "base":
            continue
        first_alloc = next((e for e in evs if e["ev"] in ("alloc", "oom", "free")), None)
        if first_alloc is None:
            continue
        if first_alloc["ev"] == "alloc":
            evs[0]["before"] = first_alloc["allocated"] - first_alloc["total"]
        elif first_alloc["ev"] == "free":
            evs[0]["before"] = first_alloc["allocated"] + first_alloc["total"]
        else:
            evs[0]["before"] = first_alloc["allocated"]
        prepared.append((name, evs, src, rep))
    gc_events = sum(len(p[1]) for p in prepared)
    def bisect(runs):
        """runs whose own trace the contract rejects"""
        if not runs:
            return []
        ok, at, _ = validate("Trace_MemLimit", "Trace_MemLimit_Strict", [e for r in runs for e in r[1]], "gc")
        if ok:
            return []
        if len(runs) == 1:
            return [(runs[0], at)]
        # the rejected event tells which run it is in
        k, seen = 0, 0
        for idx, r in enumerate(runs):
            seen += len(r[1])
            if at is not None and at <= seen:
                k = idx
                break
        return bisect([runs[k]]) + bisect(runs[k + 1:])
    for (name, evs, src, rep), at in bisect(prepared):
        strict_rej += 1
        ev = evs[(at or 1) - 1]
        ok2, at2, _ = validate("Trace_MemLimit", "Trace_MemLimit_Report", evs, "gc2")
        if ok2:
            V.violation("alloc-over-limit:error-value-after-oom", "accounted memory %d exceeds the limit %d: the value reporting the OutOfMemory error is allocated without the limit (run %s)" % (ev.get("allocated", 0), ev.get("limit", 0), name), dict(rep, event=ev))
        else:
            report_rej += 1
            ev2 = evs[(at2 or 1) - 1]
            V.violation("gc-accounting:%s:%s" % (ev2.get("ev"), name.split("/")[0]), "gc accounting trace rejected at %s (run %s)" % (json.dumps(ev2), name), dict(rep, event=ev2))
    rc = V.finish()
    vlib.write_evidence(PID, tier, "model_checking", {
        "states": m1.distinct + m4.distinct + m5.distinct, "transitions": m1.generated + m4.generated + m5.generated,
        "traces_validated_against_impl": len(frame_events) + len(gc_runs),
        "samples": [loop_src(ctxs[-1]["ctx"], ctxs[-1]["ty"], ctxs[-1]["shape"], 60)],
        "evaluations": len(res), "distinct_nontrivial": len(ctxs),
        "tail_contexts": len(ctxs), "tail_loops_constant_stack": tail_ok, "frame_events_validated": len(allf), "frame_trace_accepted": fr_ok,
        "gc_runs": len(gc_runs), "gc_traces_rejected_strict": strict_rej, "gc_traces_rejected_with_report_allowance": report_rej, "gc_events_validated": gc_events,
        "memlimit_as_coded_predicts_overshoot": m2.violation is not None,
        "rule": "tail-position contexts enumerated by TLC (TailCtx.tla, depth <= %d, Int and Bool loops, direct / mutual / through a closure / over-application), each run for 60 iterations with frame events (validated against Trace_VMFrames) and 10^5 iterations under a 4096-slot stack limit (peak stack compared); non-tail recursion x stack limits; allocation templates x memory limits with gc events validated against Trace_MemLimit; interrupt from another OS thread; distinct_nontrivial = tail contexts" % (2 if tier == "quick" else 3),
        "exhaustive": False, "known_findings_hit": {k: v[1] for k, v in V.known_hits.items()},
    }, ["frame / gc events come from the hooks in stack.rs, thread.rs and gc.rs; peak stack length from the interpreter-loop hook",
        "native stack exhaustion is observed in separate worker processes (a signal is data)"], time.time() - t0, len(V.violations))
    return rc


def replay(path):
    d = json.load(open(path))["replay"]
    j = dict(d.get("job", {}))
    j.update({"id": 0, "src": d["src"], "fresh": True})
    j.pop("events", None)
    r = vlib.run_pool(["lang"], [j], workers=1, job_timeout=90)[0]
    print(d["src"]); print(json.dumps({k: r.get(k) for k in ("status", "value", "msg", "class", "peak", "allocated", "limit")})[:600])
    print("(re-run ./check C07 for the trace validation verdict)")
    print("VIOLATION property=%s replay=%s" % (PID, path))
    return 1

"""C18: printed types read back as the same type.
TypeSyntax.tla enumerates type ASTs; its in-model printer + recogniser satisfy Parse(Print(t)) = t on the core grammar
(TLC, exhaustive).  Every enumerated type (core and extended productions: implicit arguments, tuples, records with
and without a row tail, variants, forall over two variables) is built as a real ArcType, rendered at widths 20..200,
parsed back by the real parser and compared structurally."""
import json, os, random, time
import vlib

PID = "C18"
WIDTHS = [20, 40, 80, 120, 200]


def types(core, size, name):
    cfg = "SPECIFICATION Spec\nCONSTANTS\n  MaxSize = %d\n  Core = %s\n  Emit = TRUE\nINVARIANTS RoundTrip EmitType\nCHECK_DEADLOCK FALSE\n" % (size, "TRUE" if core else "FALSE")
    open(os.path.join(vlib.SPEC, name + ".cfg"), "w").write(cfg)
    r = vlib.run_tlc("TypeSyntax", name, workers=8, timeout=1800, print_prefix='"TYPE"')
    os.remove(os.path.join(vlib.SPEC, name + ".cfg"))
    ts = [t for t in (vlib.tlc_value_to_json(l) for l in r.prints) if t]
    return ts, r


def run(tier):
    t0 = time.time()
    seed = vlib.seed()
    rnd = random.Random(seed)
    vlib.build_harness()
    V = vlib.Verdicts(PID)
    core, r1 = types(True, 5 if tier == "quick" else 7, "_c18a")
    if r1.violation:
        V.violation("model:RoundTrip", "TypeSyntax.tla: Parse(Print(t)) # t in the model\n%s" % "\n".join(r1.trace[-1:]), {"trace": r1.trace})
    ext, r2 = types(False, 4 if tier == "quick" else 5, "_c18b")
    ext.sort(key=json.dumps)
    cap = 12000 if tier == "quick" else 150000
    if len(ext) > cap:
        ext = rnd.sample(ext, cap)
    allt, seen = [], set()
    for t in core + ext:
        k = json.dumps(t)
        if k not in seen:
            seen.add(k)
            allt.append(t)
    vlib.log("[C18] %d types (%d core, %d extended)" % (len(allt), len(core), len(ext)))
    jobs = [{"id": i, "code": t, "widths": WIDTHS} for i, t in enumerate(allt)]
    res = vlib.run_pool(["types"], jobs, workers=14, job_timeout=30)
    ok = nontrivial = 0
    for j in jobs:
        r = res.get(j["id"])
        if r is None:
            continue
        kinds = sorted({n[0] for n in j["code"]})
        if len(j["code"]) > 1:
            nontrivial += 1
        if r.get("status") != "ok":
            V.violation("printer-%s:%s" % (r.get("status"), "+".join(kinds)), "rendering / parsing the type %s the host: %s" % (r.get("status"), r.get("msg", "")[:300]), {"code": j["code"]})
            continue
        good = True
        for rd in r["renders"]:
            rep = {"code": j["code"], "width": rd["width"], "text": rd["text"], "want": r["want"], "parsed": rd["parsed"], "error": rd["error"]}
            shape = "+".join(k for k in kinds if k not in ("int", "str", "var", "con", "unit"))
            if rd["error"]:
                V.violation("unparsable:%s" % shape, "the rendering at width %d does not parse: %s\n%s" % (rd["width"], rd["error"][:200], rd["text"]), rep)
                good = False
                break
            if rd["parsed"] != r["want"]:
                V.violation("different-type:%s" % shape, "the rendering at width %d reads back as a different type\nprinted : %s\noriginal: %s\nparsed  : %s" % (rd["width"], rd["text"], r["want"], rd["parsed"]), rep)
                good = False
                break
        ok += good
    rc = V.finish()
    vlib.write_evidence(PID, tier, "model_checking", {
        "states": r1.distinct + r2.distinct, "transitions": r1.generated + r2.generated, "traces_validated_against_impl": len(res),
        "samples": [res[i]["renders"][2]["text"] for i in (0, len(jobs) // 2, len(jobs) - 1) if res.get(i) and res[i].get("renders")],
        "evaluations": len(res) * len(WIDTHS), "distinct_nontrivial": nontrivial, "round_trips_ok": ok, "widths": WIDTHS,
        "rule": "all type ASTs of the core grammar up to %d nodes and of the extended grammar up to %d nodes (sampled above the cap) enumerated by TLC from TypeSyntax.tla, each rendered at %d widths; non-trivial = more than one node" % (5 if tier == "quick" else 7, 4 if tier == "quick" else 5, len(WIDTHS)),
        "exhaustive": len(ext) < cap, "known_findings_hit": {k: v[1] for k, v in V.known_hits.items()},
    }, ["structural comparison through an s-expression of Type<Id, T> on both sides (identifiers, generics and builtins compared by name)",
        "type fields in records, effect rows, GADT-style constructors and operator names are not generated"], time.time() - t0, len(V.violations))
    return rc


def replay(path):
    d = json.load(open(path))["replay"]
    r = vlib.run_pool(["types"], [{"id": 0, "code": d["code"], "widths": WIDTHS}], workers=1, job_timeout=30)[0]
    print(json.dumps(r, indent=1)[:2500])
    bad = r.get("status") != "ok" or any(x["error"] or x["parsed"] != r["want"] for x in r["renders"])
    if bad:
        print("VIOLATION property=%s replay=%s" % (PID, path)); return 1
    return 0

"""C06: scripts cannot crash the host; errors are values and the VM stays usable.
(a) Prims.tla: every exported std primitive x boundary-value tuples (TLC enumerates the product from the table the
    harness reads out of the running VM); each call runs in an isolated worker: outcome must be a value or an error.
(b) Session.tla usability monitor: histories of failing and succeeding evaluations on one VM; after every
    evaluation the VM must be back at its base frame / stack, a later evaluation must answer what a fresh VM answers
    (trace validation against Trace_Session.tla), and the memory of failed runs must be reclaimable.
(c) deep data / deep control and green-thread failure scenarios in isolated workers (a crash is a violation)."""
import json, os, random, re, time, zlib
import vlib, langlib

PID = "C06"

MODULES = ["std.int.prim", "std.float.prim", "std.byte.prim", "std.char.prim", "std.string.prim", "std.array.prim", "std.prim",
           "std.path.prim", "std.regex.prim", "std.random.prim", "std.json.prim"]
SKIP = {("std.prim", "error"), ("std.prim", "discriminant_value")}

LONG = "日" * 100      # 300 bytes, byte 256 is not a character boundary
BOUNDARY = {
    "Int": ["0", "1", "(0 - 1)", "9223372036854775807", "(0 - 9223372036854775807 - 1)", "63", "64", "100", "2", "300"],
    "Float": ["0.0", "1.5", "(0.0 - 1.5)", "(0.0 / 0.0)", "(1.0 / 0.0)", "1.0e308", "9.3e18"],
    "String": ['""', '"a"', '"é€"', '"abc"', '"%s"' % LONG, '"11"', '" x "'],
    "Byte": ["0b", "255b", "65b"],
    "Char": ["'a'", "((import! std.string.prim).char_at \"€\" 0)", "'0'"],
    "Bool": ["True", "False"],
    "Unit": ["()"],
    "ArrayInt": ["[]", "[1]", "[1, 2, 3]"],
    "ArrayByte": ["(let q : Array Byte = [] in q)", "[255b]", "[104b, 105b]", "[195b]"],
}


def arg_kind(t):
    t = t.strip()
    t = re.sub(r"^std\.types\.", "", t)
    if t in ("Int", "Float", "String", "Byte", "Char", "Bool"):
        return t
    if t == "()":
        return "Unit"
    if t in ("Array a", "Array Int"):
        return "ArrayInt"
    if t == "Array Byte":
        return "ArrayByte"
    return None


def split_fn(t):
    t = re.sub(r"^forall [^.]*\. ", "", t.replace("\n", " "))
    parts, depth, cur = [], 0, ""
    i = 0
    while i < len(t):
        c = t[i]
        if c in "({[":
            depth += 1
        elif c in ")}]":
            depth -= 1
        if depth == 0 and t.startswith("->", i):
            parts.append(cur.strip()); cur = ""; i += 2; continue
        cur += c
        i += 1
    parts.append(cur.strip())
    return parts[:-1], parts[-1]


def prim_table():
    rc, out, err = vlib.gvh(["prims"] + MODULES)
    table = []
    for x in json.loads(out):
        if "error" in x or not x.get("is_fn") or (x["module"], x["name"]) in SKIP:
            continue
        args, ret = split_fn(x["type"])
        kinds = [arg_kind(a) for a in args]
        if not kinds or None in kinds:
            continue
        table.append({"m": x["module"], "f": x["name"], "args": kinds, "io": ret.startswith("std.io.IO") or ret.startswith("IO ")})
    return table


def write_mc(table):
    rows = ",\n  ".join('[m |-> "%s", f |-> "%s", args |-> <<%s>>]' % (r["m"], r["f"], ", ".join('"%s"' % a for a in r["args"])) for r in table)
    nb = " @@ ".join('("%s" :> %d)' % (k, len(v)) for k, v in BOUNDARY.items())
    open(os.path.join(vlib.SPEC, "MC_Prims.tla"), "w").write(
        "---- MODULE MC_Prims ----\nEXTENDS Prims\nMCTable == <<\n  %s\n>>\nMCBoundary == %s\n====\n" % (rows, nb))
    open(os.path.join(vlib.SPEC, "MC_Prims.cfg"), "w").write(
        "SPECIFICATION Spec\nCONSTANTS\n  Table <- MCTable\n  NBoundary <- MCBoundary\nINVARIANTS WellFormed EmitCalls\nCHECK_DEADLOCK FALSE\n")


def call_src(row, tup):
    name = row["f"] if re.match(r"^[a-z_][A-Za-z0-9_']*$", row["f"]) else "(%s)" % row["f"]
    args = " ".join(BOUNDARY[k][i - 1] for k, i in zip(row["args"], tup))
    return "let m = import! %s\nlet r = m.%s %s\n0\n" % (row["m"], name, args), "%s.%s %s" % (row["m"], row["f"], args)


# evaluation classes for the usability histories
CLASSES = {
    1: ("ok", "let f x = { a = x, b = [x, x + 1] }\n(f 1).b\n"),
    2: ("explicit", "let f x = error \"boom\"\n1 + f 1\n"),
    3: ("arith", "let f x = x + 9223372036854775807\nf 1\n"),
    4: ("nomatch", "let f x =\n    match x with\n    | Some y -> y\nf None + 1\n"),
    5: ("type-error", "1 + \"a\"\n"),
    6: ("failing-primitive", "let a = import! std.array.prim\n[a.index [1, 2] 5]\n"),
    7: ("failing-import", "let m = import! does.not.exist\nm.x\n"),
    8: ("deep-failure", "let list @ { List } = import! std.list\nrec let build n acc = if n == 0 then acc else build (n - 1) (Cons n acc)\nlet xs = build 200 Nil\nrec let sum l = match l with\n    | Cons x rest -> x + sum rest\n    | Nil -> error \"end\"\nsum xs\n"),
    9: ("ok2", "let string = import! std.string\nstring.len \"abc\" + 1\n"),
}

SPECIAL = [
    ("import-std.path.prim-first", "let p = import! std.path.prim\n1\n", False),
    ("resume-thread-that-died", """let { spawn, resume } = import! std.thread
let { wrap } = import! std.applicative
let { flat_map } = import! std.monad
let io @ { ? } = import! std.io
let { Result } = import! std.result
do t = spawn (
        do _ = wrap ()
        wrap (error "die"))
do r1 = io.catch (do rr = resume t in wrap 1) (\\_ -> wrap 3)
do r2 = io.catch (do rr = resume t in wrap 1) (\\_ -> wrap 3)
wrap (r1 + r2)
""", True),
    ("deep-list-50000", "let list @ { List } = import! std.list\nrec let build n acc = if n == 0 then acc else build (n - 1) (Cons n acc)\nlet xs = build 50000 Nil\n1\n", False),
    ("deep-list-10000", "let list @ { List } = import! std.list\nrec let build n acc = if n == 0 then acc else build (n - 1) (Cons n acc)\nlet xs = build 10000 Nil\n1\n", False),
    ("deep-recursion-100000", "rec let f n = if n == 0 then 0 else 1 + f (n - 1)\nf 100000\n", False),
    ("tail-loop-1000000", "rec let f n acc = if n == 0 then acc else f (n - 1) (acc + 1)\nf 1000000 0\n", False),
    ("nested-record-depth", "rec let nest n acc = if n == 0 then acc else nest (n - 1) { inner = acc }\nlet _ = nest 1 { inner = { inner = 0 } }\n1\n", False),
]


def run(tier):
    t0 = time.time()
    seed = vlib.seed()
    rnd = random.Random(seed)
    vlib.build_harness()
    V = vlib.Verdicts(PID)
    # ---- (a) primitives
    table = prim_table()
    write_mc(table)
    tl = vlib.run_tlc("MC_Prims", "MC_Prims", workers=4, timeout=900, print_prefix='"CALLS"')
    if tl.violation:
        raise vlib.ToolError("Prims.tla: %s" % tl.violation)
    calls = []
    for line in tl.prints:
        c = vlib.tlc_value_to_json(line)
        if not c:
            continue
        ts = c["ts"]
        cap = 24 if tier == "quick" else 400
        if len(ts) > cap:
            ts = rnd.sample(ts, cap)
        for t in ts:
            calls.append((c["p"], t["t"]))
    jobs, meta = [], {}
    for p, tup in calls:
        row = table[p - 1]
        src, desc = call_src(row, tup)
        jobs.append({"id": len(jobs), "src": src, "run_io": row["io"]})
        meta[len(jobs) - 1] = (row, tup, desc)
    vlib.log("[C06] %d primitives, %d calls" % (len(table), len(jobs)))
    res = vlib.run_pool(["lang"], jobs, workers=14, job_timeout=20)
    outcome = {"value": 0, "error": 0}
    for j in jobs:
        r = res.get(j["id"])
        if r is None:
            continue
        row, tup, desc = meta[j["id"]]
        if r["status"] in ("panic", "crash", "hang"):
            m = re.search(r"panicked at ([^\s:]+:\d+)", r["msg"])
            where = r.get("panic_at") or (m.group(1) if m else r["msg"].strip().splitlines()[-1][:60] if r["msg"].strip() else "")
            V.violation("prim:%s.%s:%s" % (row["m"], row["f"], r["status"]), "%s: %s the host (%s)\n%s" % (desc[:200], r["status"], where, r["msg"][-600:]), {"src": j["src"], "call": desc})
        elif r["status"] == "ok":
            outcome["value"] += 1
        else:
            outcome["error"] += 1
    # ---- (b) usability histories
    mc = vlib.run_tlc("Session", "MC_Session", workers=4, timeout=600)
    hcfg = "SPECIFICATION Spec\nCONSTANTS\n  NProg = 9\n  NVM = 1\n  MaxLen = %d\n  Emit = TRUE\nINVARIANTS EmitHistory Deterministic AtBase\nCHECK_DEADLOCK FALSE\n"
    open(os.path.join(vlib.SPEC, "_c06_hist.cfg"), "w").write(hcfg % (3 if tier == "quick" else 4))
    ex = vlib.run_tlc("Session", "_c06_hist", workers=4, timeout=900, print_prefix='"HIST"')
    open(os.path.join(vlib.SPEC, "_c06_hist.cfg"), "w").write(hcfg % 7)
    sim = vlib.run_tlc("Session", "_c06_hist", workers=4, simulate=60 if tier == "quick" else 1500, depth=8, seed_=seed, timeout=900, print_prefix='"HIST"')
    os.remove(os.path.join(vlib.SPEC, "_c06_hist.cfg"))
    hists = [h for h in (vlib.tlc_value_to_json(l) for l in ex.prints + sim.prints) if h]
    hjobs = []
    # reference observations from fresh VMs
    hjobs.append({"id": 0, "history": [{"vm": k, "prog": k, "src": CLASSES[k][1]} for k in CLASSES]})
    for h in hists:
        hjobs.append({"id": len(hjobs), "history": [{"vm": 1, "prog": p, "src": CLASSES[p][1]} for v, p in h]})
    hres = vlib.run_pool(["lang"], hjobs, workers=14, job_timeout=120)
    wd = vlib.workdir("c06")
    trace = os.path.join(wd, "trace.ndjson")
    first = {}
    events = []
    with open(trace, "w") as f:
        for j in hjobs:
            r = hres.get(j["id"])
            if r is None or "obs" not in r:
                if r is not None:
                    V.violation("history:%s" % r.get("status"), "a history of evaluations %s the host: %s\n%s" % (r.get("status"), [CLASSES[s["prog"]][0] for s in j["history"]], r.get("msg", "")[-400:]), {"history": j["history"]})
                continue
            base = None
            for k, (step, o) in enumerate(zip(j["history"], r["obs"])):
                if o["status"] == "panic":
                    V.violation("history:panic:%s" % (o.get("panic_at") or o["msg"][:60]), "evaluating a %s program panicked the host" % CLASSES[step["prog"]][0], {"history": j["history"], "step": k})
                    break
                text = "\x1f".join([o["status"], o["value"], o["type"], o["msg"]])
                h = (zlib.crc32(text.encode()) & 0x3FFFFFFF) + 1
                ev = {"vm": j["id"] + 1, "prog": step["prog"], "obs": h, "frames": o["frames"], "slen": o["slen"]}
                f.write(json.dumps(ev) + "\n")
                events.append((ev, o, step, j, k))
    tv = vlib.run_tlc("Trace_Session", "Trace_Session", workers=1, timeout=900, env={"TRACE": trace}, dfs=True, xss="1g", xmx="4g")
    explained = 0
    for ev, o, step, j, k in events:
        cls = CLASSES[step["prog"]][0]
        before = [CLASSES[s["prog"]][0] for s in j["history"][:k]]
        if ev["frames"] != 1 or ev["slen"] != 0:
            explained += 1
            V.violation("not-at-base:after-%s:frames=%s:slen>0=%s" % (cls, ev["frames"], ev["slen"] > 0),
                        "after evaluating a `%s` program the VM is left with %d frame(s) and %d value(s) on its stack (base: 1 frame, 0 values); history so far: %s" % (cls, ev["frames"], ev["slen"], before + [cls]),
                        {"history": j["history"], "step": k})
        p = ev["prog"]
        if p not in first:
            first[p] = (ev["obs"], o)
        elif first[p][0] != ev["obs"]:
            explained += 1
            V.violation("differs-from-fresh-vm:%s:after-%s" % (cls, before[-1] if before else "-"),
                        "a `%s` program evaluated after %s answers differently from a fresh VM\nfresh: %s\nlater: %s" % (cls, before, json.dumps(first[p][1])[:500], json.dumps(o)[:500]),
                        {"history": j["history"], "step": k})
    if tv.violation and not explained:
        V.violation("trace-rejected", "Trace_Session rejected the session: %s" % tv.out[-400:], {})
    # ---- (c) special scenarios in isolated workers
    sj = [{"id": i, "src": src, "run_io": io, "fresh": True} for i, (name, src, io) in enumerate(SPECIAL)]
    sres = vlib.run_pool(["lang"], sj, workers=6, job_timeout=120, env={"RUST_MIN_STACK": "8388608"})
    for i, (name, src, io) in enumerate(SPECIAL):
        r = sres.get(i)
        if r is None:
            continue
        if r["status"] in ("panic", "crash", "hang"):
            m = re.search(r"panicked at ([^\s:]+:\d+)", r["msg"])
            V.violation("scenario:%s:%s" % (name, r["status"]), "%s: %s the host (%s)\n%s" % (name, r["status"], r.get("panic_at") or (m.group(1) if m else ""), r["msg"][-500:]), {"src": src, "name": name})
    rc = V.finish()
    vlib.write_evidence(PID, tier, "model_checking", {
        "states": mc.distinct + tl.distinct, "transitions": mc.generated + tl.generated,
        "traces_validated_against_impl": len(hjobs),
        "samples": [meta[0][2], [CLASSES[s["prog"]][0] for s in hjobs[-1]["history"]]],
        "evaluations": len(res) + len(events) + len(sres), "distinct_nontrivial": len(table),
        "primitives": len(table), "primitive_calls": len(res), "primitive_outcomes": outcome,
        "histories": len(hjobs), "history_events": len(events), "trace_accepted_by_tlc": tv.violation is None,
        "rule": "every function-typed field of %s whose arguments are Int/Float/String/Byte/Char/Bool/unit/arrays x boundary tuples enumerated by TLC (capped per primitive in the quick tier); all histories of 3 (quick) / 4 evaluations over 9 program classes on one VM + TLC-simulated histories of 7; distinct_nontrivial = number of primitives exercised" % ", ".join(MODULES),
        "exhaustive": False, "known_findings_hit": {k: v[1] for k, v in V.known_hits.items()},
    }, ["io / fs / process / http / thread primitives are not called (side effects on the sandbox, stdin)",
        "workers are separate processes: an abort or signal is data"], time.time() - t0, len(V.violations))
    return rc


def replay(path):
    d = json.load(open(path))["replay"]
    if "history" in d:
        r = vlib.run_pool(["lang"], [{"id": 0, "history": d["history"]}], workers=1, job_timeout=120)[0]
        print(json.dumps(r)[:1500])
        bad = r.get("status") in ("hang", "crash") or any(o["frames"] != 1 or o["slen"] != 0 or o["status"] == "panic" for o in r.get("obs", []))
    else:
        r = vlib.run_pool(["lang"], [{"id": 0, "src": d["src"], "run_io": True, "fresh": True}], workers=1, job_timeout=120, env={"RUST_MIN_STACK": "8388608"})[0]
        print(d["src"]); print(json.dumps(r)[:800])
        bad = r["status"] in ("panic", "crash", "hang")
    if bad:
        print("VIOLATION property=%s replay=%s" % (PID, path)); return 1
    return 0

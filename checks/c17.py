"""C17: channels, references, lazies and green threads keep their sequential contracts.
Conc.tla is model-checked; TLC-generated walks are replayed into the VM as generated gluon programs and the
observation log of every step is compared with the model's."""
import json, os, sys, time
import vlib

PID = "C17"

PRELUDE = """let { lazy, force } = import! std.lazy
let { ref, load, (<-) } = import! std.reference
let { send, recv, channel } = import! std.channel
let { spawn, yield, resume } = import! std.thread
let { wrap } = import! std.applicative
let { flat_map } = import! std.monad
let io @ { ? } = import! std.io
let { Result } = import! std.result
let { log, tick, stash, peek } = import! host
let okcode r =
    match r with
    | Ok _ -> 1
    | Err _ -> 0
let rcvcode r =
    match r with
    | Ok v -> v
    | Err _ -> 0
let rescode r =
    match r with
    | Ok _ -> 1
    | Err _ -> 2
"""


def truncate(hist):
    """cut the walk at the last point where only the main thread is on the resume chain"""
    last = 0
    for i, s in enumerate(hist):
        if s["d"] == 1:
            last = i + 1
    return hist[:last]


def gen_program(hist):
    """returns (source, expected log)"""
    # scripts per thread
    scripts = {}
    for i, s in enumerate(hist):
        scripts.setdefault(s["t"], []).append((i, s))
    bodies = {}

    def body(l, kind, x):
        if kind == "const":
            return "tick %d %d" % (l, x)
        if kind == "fail":
            return "let x = tick %d 0 in if x == 0 then error \"boom\" else x" % l
        if kind == "self":
            return "let x = tick %d 0 in force (peek (%d + x))" % (l, l)
        if kind == "other":
            return "let x = tick %d 0 in force lz%d + x" % (l, x)
        raise ValueError(kind)

    def emit(t, ind):
        pad = " " * ind
        out = []
        ended = False
        for i, s in scripts.get(t, []):
            op, a, b = s["op"], s["a"], s["b"]
            if op == "chan":
                out.append(pad + "do ch%d = channel 0" % a)
            elif op == "send":
                out.append(pad + "do r%d = send ch%d.sender %d" % (i, a, b))
                out.append(pad + "seq log %d %d (okcode r%d)" % (t, i, i))
            elif op == "recv":
                out.append(pad + "do r%d = recv ch%d.receiver" % (i, a))
                out.append(pad + "seq log %d %d (rcvcode r%d)" % (t, i, i))
            elif op == "ref":
                out.append(pad + "do ce%d = ref %d" % (a, b))
            elif op == "load":
                out.append(pad + "do r%d = load ce%d" % (i, a))
                out.append(pad + "seq log %d %d r%d" % (t, i, i))
            elif op == "store":
                out.append(pad + "seq (<-) ce%d %d" % (a, b))
            elif op == "lazy":
                kind = s["cls"][1]
                bodies[a] = (kind, b)
                if kind == "self":
                    out.append(pad + "let lz%d = stash %d (lazy (\\_ -> %s))" % (a, a, body(a, kind, b)))
                else:
                    out.append(pad + "let lz%d = lazy (\\_ -> %s)" % (a, body(a, kind, b)))
            elif op == "force":
                out.append(pad + "do r%d = io.catch (do _ = wrap () in wrap (force lz%d)) (\\_ -> wrap 0)" % (i, a))
                out.append(pad + "seq log %d %d r%d" % (t, i, i))
            elif op == "spawn":
                out.append(pad + "do th%d = spawn (" % a)
                out.append(pad + "        do _ = wrap ()")
                sub = emit(a, ind + 8)
                out.extend(sub[:-1])
                out.append(sub[-1] + ")")
            elif op == "resume":
                out.append(pad + "do r%d = io.catch (do rr = resume th%d in wrap (rescode rr)) (\\_ -> wrap 3)" % (i, a))
                out.append(pad + "seq log %d %d r%d" % (t, i, i))
            elif op == "yield":
                out.append(pad + "let _ = yield ()")
            elif op == "finish":
                ended = True
                break
            elif op == "die":
                out.append(pad + "io.throw \"die\"")
                return out
            else:
                raise ValueError(op)
        out.append(pad + "wrap ()")
        return out

    lines = emit(0, 0)
    src = PRELUDE + "\n".join(lines) + "\n"
    # expected log
    exp = []
    pending = []
    for i, s in enumerate(hist):
        for l in s["tk"]:
            kind, x = bodies[l]
            exp.append([-1, l, x if kind == "const" else 0])
        op = s["op"]
        if op in ("send", "recv", "load", "force"):
            exp.append([s["t"], i, s["obs"]])
        elif op == "resume":
            if s["cls"][1] in ("new", "susp"):
                pending.append((s["t"], i))
            else:
                exp.append([s["t"], i, s["obs"]])
        if s["ret"] >= 0:
            t, ri = pending.pop()
            assert t == s["ret"]
            exp.append([t, ri, s["robs"]])
    return src, exp


def classify(hist, exp, res):
    """key describing the first divergence between expected and observed log"""
    log = res["log"]
    n = 0
    while n < len(exp) and n < len(log) and list(log[n]) == exp[n]:
        n += 1
    if n < len(exp):
        e = exp[n]
        if e[0] == -1:
            # a thunk tick is missing: find the force step which runs it
            step = next((s for s in hist if e[1] in s["tk"]), None)
        else:
            step = hist[e[1]]
        # a resume observation belongs to the resume step
        cls = "/".join(str(c) for c in step["cls"]) if step else "?"
        got = "missing" if n >= len(log) else "got=%s" % (list(log[n]),)
        if res["status"] in ("panic", "hang", "crash"):
            kind = res["status"]
        elif n >= len(log):
            kind = "missing"
        else:
            kind = "wrong"
        return "%s:%s" % (cls, kind), "expected %s %s at log position %d" % (e, got, n)
    if len(log) > len(exp):
        return "extra-observations", "unexpected extra log entries %s" % (log[len(exp):][:3],)
    if res["status"] != "ok":
        return "end:%s" % res["status"], res["msg"][:300]
    return None, None


def collect_walks(r):
    walks = []
    for line in r.prints:
        h = vlib.tlc_value_to_json(line)
        if h is not None:
            walks.append(h)
    return walks


def run(tier):
    t0 = time.time()
    seed = vlib.seed()
    vlib.build_harness()
    V = vlib.Verdicts(PID)
    cov = {}
    # 1. exhaustive model check of the contract
    mc = vlib.run_tlc("Conc", "MC_Conc", workers=8, timeout=1500, coverage=(tier == "quick"))
    if mc.violation:
        V.violation("model:" + mc.violation, "Conc.tla violates %s\n%s" % (mc.violation, "\n".join(mc.trace[-3:])), {"trace": mc.trace})
    vlib.log("[C17] MC_Conc: %d states, %d distinct, depth %d, %.0fs" % (mc.generated, mc.distinct, mc.depth, mc.wall))
    # negative control: the transcription of lazy.rs must violate NoHang (the invariants bite)
    neg = vlib.run_tlc("Conc", "MC_Conc_AsCoded", workers=4, timeout=600)
    negative_control = neg.violation is not None
    # 2. behaviours: all walks of length 4 + seeded random walks
    walks = []
    en = vlib.run_tlc("Conc", "Enum_Conc", workers=8, timeout=900, print_prefix='"WALK"')
    walks += collect_walks(en)
    n_enum = len(walks)
    nsim = 3000 if tier == "quick" else 60000
    sim = vlib.run_tlc("Conc", "Sim_Conc", workers=8, simulate=nsim, depth=11, seed_=seed, timeout=1500,
                       print_prefix='"WALK"')
    walks += collect_walks(sim)
    if tier == "thorough":
        sim2 = vlib.run_tlc("Conc", "Sim_Conc_Long", workers=8, simulate=20000, depth=31, seed_=seed + 1, timeout=1500,
                            print_prefix='"WALK"')
        walks += collect_walks(sim2)
    # dedupe after truncation
    seen = set()
    progs = []
    classes = set()
    for h in walks:
        h = truncate(h)
        if not h:
            continue
        key = json.dumps(h, sort_keys=True)
        if key in seen:
            continue
        seen.add(key)
        src, exp = gen_program(h)
        progs.append((h, src, exp))
        for s in h:
            classes.add("/".join(str(c) for c in s["cls"]))
    vlib.log("[C17] %d walks (%d exhaustive, rest simulated), %d distinct programs" % (len(walks), n_enum, len(progs)))
    results = vlib.run_pool(["conc"], [{"id": i, "src": p[1]} for i, p in enumerate(progs)], workers=14, job_timeout=20)
    nontrivial = 0
    checked = 0
    for i, (h, src, exp) in enumerate(progs):
        r = results.get(i)
        if r is None:
            V.violation("no-result", "harness produced no result for a walk", {"walk": h, "src": src})
            continue
        checked += 1
        if any(s["op"] in ("resume", "force") for s in h):
            nontrivial += 1
        key, detail = classify(h, exp, r)
        if key:
            V.violation(key, "%s\nstatus=%s msg=%s\nprogram:\n%s" % (detail, r["status"], r["msg"][:500], src),
                        {"walk": h, "src": src, "expected": exp, "observed": r["log"], "status": r["status"], "msg": r["msg"]})
    rcode = V.finish()
    sample = [{"walk": [[s["t"], s["op"], s["a"], s["b"], s["obs"]] for s in p[0]], "expected_log": p[2]} for p in progs[:: max(1, len(progs) // 3)][:3]]
    vlib.write_evidence(PID, tier, "model_checking", {
        "states": mc.distinct, "transitions": mc.generated,
        "traces_validated_against_impl": checked,
        "samples": sample,
        "evaluations": checked, "distinct_nontrivial": nontrivial,
        "rule": "TLC walks of Conc.tla (all walks of 4 steps + seeded random walks of 10 steps%s), truncated to the last point where the main thread runs, deduplicated; non-trivial = contains a resume or a force" % (", 30 steps" if tier == "thorough" else ""),
        "exhaustive": False,
        "model_depth": mc.depth,
        "step_classes_replayed": sorted(classes),
        "action_coverage": {k: v[1] for k, v in mc.coverage.items()},
        "negative_control_as_coded_spec_rejected": negative_control,
        "known_findings_hit": {k: v[1] for k, v in V.known_hits.items()},
    }, ["the observation log (host.log/host.tick) is the only projection compared",
        "green threads are driven on one OS thread (cooperative scheduling as in the default VM)",
        "Conc.tla with Ideal=TRUE is the documented contract"], time.time() - t0, len(V.violations))
    return rcode


def replay(path):
    d = json.load(open(path))["replay"]
    vlib.build_harness()
    src, exp = gen_program(d["walk"])
    r = vlib.run_pool(["conc"], [{"id": 0, "src": src}], workers=1, job_timeout=20)[0]
    key, detail = classify(d["walk"], exp, r)
    print(src)
    print("expected:", exp)
    print("observed:", r["log"], r["status"], r["msg"][:300])
    if key:
        print("VIOLATION property=%s replay=%s" % (PID, path))
        return 1
    return 0

"""C04: optimisation never changes what a program does.
Lang.tla enumerates programs with discarded bindings whose right-hand side is an effect or a failing call reached by
identifier, module field, closure, partial application, record field or tuple component; OptModel (in Lang.tla)
gives the outcomes of dropping every subset of the dead bindings.  Every program is run with optimisation off and
on: both must agree with each other and with the model; the only accepted difference is a skipped unused built-in
arithmetic operation."""
import json, time
import vlib, langlib

PID = "C04"


def interesting(o):
    return bool(o.get("nalts")) or any(n[0] in ("eff", "effm") for n in o["p"])


def run(tier):
    t0 = time.time()
    seed = vlib.seed()
    vlib.build_harness()
    V = vlib.Verdicts(PID)
    outs, stats, rs = [], {}, []
    def add(tag, size, prods, sample=None, **kw):
        o, r = langlib.corpus(tag, size, prods, ("I",), sample=None, **kw)
        o = sorted((x for x in o if interesting(x)), key=lambda x: json.dumps(x["p"]))
        if sample and len(o) > sample:
            import random
            o = random.Random(seed).sample(o, sample)
        stats[tag] = {"size": size, "programs": len(o), "states": r.distinct, "generated": r.generated, "wall_s": round(r.wall, 1)}
        outs.extend(o)
        rs.append(r)
    if tier == "quick":
        add("all4", 4, langlib.ALL_PRODS)
        add("effects6", 6, langlib.FOCUS["effects"], sample=8000)
        add("all5", 5, langlib.ALL_PRODS, sample=5000)
    else:
        add("all5", 5, langlib.ALL_PRODS)
        add("effects7", 7, langlib.FOCUS["effects"], sample=60000, timeout=3000)
        add("all6", 6, langlib.ALL_PRODS, sample=40000, timeout=3000)
        add("sim", 24, langlib.ALL_PRODS, scope=4, simulate=4000, depth=25, seed=seed)
    seen, jobs = set(), []
    for o in outs:
        k = langlib.key_of(o["p"])
        if k in seen:
            continue
        seen.add(k)
        jobs.append({"id": len(jobs), "src": langlib.render(o["p"]), "o": o})
    n = len(jobs)
    vlib.log("[C04] %d programs with discarded bindings or host effects (%s)" % (n, {k: v["programs"] for k, v in stats.items()}))
    res = vlib.run_pool(["lang"], [{"id": j["id"], "src": j["src"], "optimize": False} for j in jobs] +
                        [{"id": n + j["id"], "src": j["src"], "optimize": True} for j in jobs], workers=14, job_timeout=20)
    xs = {}
    agree = dead = 0
    for j in jobs:
        r0, r1 = res.get(j["id"]), res.get(n + j["id"])
        if r0 is None or r1 is None:
            continue
        if j["o"].get("nalts"):
            dead += 1
        # the unoptimised run must be the model's outcome (otherwise it is a C01 matter, recorded as a divergence);
        # the optimised run is judged against the model and OptModel
        if langlib.observed_tuple(r0) != tuple(langlib.expected(j["o"])):
            V.divergence("unoptimised run differs from the model (C01): %s" % j["src"].split("\n")[-2][:200])
            if langlib.observed_tuple(r0) == langlib.observed_tuple(r1):
                agree += 1
                continue
        if langlib.judge(V, j["o"], r1, "opt:", xs):
            agree += 1
    rc = V.finish()
    samples = [{"src": j["src"], "expected": langlib.expected(j["o"]), "dead_binding_variants": j["o"].get("nalts", 0)} for j in jobs[:: max(1, n // 3)][:3]]
    vlib.write_evidence(PID, tier, "model_checking", {
        "states": sum(r.distinct for r in rs), "transitions": sum(r.generated for r in rs),
        "traces_validated_against_impl": len(res), "samples": samples,
        "evaluations": len(res), "distinct_nontrivial": dead, "agreed": agree,
        "rule": "programs from Lang.tla that contain a host effect or a dead binding (let _ = e, unused let, unused field of a fresh record, unused component of a fresh tuple), each compiled with optimisation off and on; non-trivial = has at least one dead binding (OptModel variants emitted)",
        "corpora": stats, "permitted_arith_skips": xs.get("permitted_arith_skips", 0), "opt_inconclusive": xs.get("opt_inconclusive", 0),
        "exhaustive": False, "known_findings_hit": {k: v[1] for k, v in V.known_hits.items()},
        "divergences": V.divergences[:10],
    }, ["Lang.tla Ev + OptModel are the reference; effect log = calls of host.eff in order"], time.time() - t0, len(V.violations))
    return rc


def replay(path):
    d = json.load(open(path))["replay"]
    src = langlib.render(d["p"])
    res = vlib.run_pool(["lang"], [{"id": 0, "src": src, "optimize": False}, {"id": 1, "src": src, "optimize": True}], workers=1, job_timeout=20)
    print(src)
    print("expected:", d["expected"])
    print("optimize off:", langlib.observed_tuple(res[0]))
    print("optimize on: ", langlib.observed_tuple(res[1]))
    if langlib.observed_tuple(res[1]) != tuple(d["expected"]) and langlib.observed_tuple(res[1]) != langlib.observed_tuple(res[0]) or res[1]["status"] in ("panic", "crash", "hang"):
        print("VIOLATION property=%s replay=%s" % (PID, path))
        return 1
    return 0

"""C01: evaluation matches the strict reference semantics.
Lang.tla enumerates closed well-typed programs and evaluates them with the documented call-by-value semantics;
every program is rendered to gluon source and run through the real pipeline; value / failure class / effect log
must equal the model's."""
import json, os, time
import vlib, langlib

PID = "C01"


def gen(tier, seed):
    outs = []
    stats = {}
    def add(tag, size, prods, roots=("I",), sample=None, **kw):
        o, r = langlib.corpus(tag, size, prods, roots, sample=sample, rng_seed=seed, **kw)
        stats[tag] = {"size": size, "programs": r.distinct and len(o), "states": r.distinct, "generated": r.generated, "wall_s": round(r.wall, 1)}
        outs.extend(o)
        return r
    rs = []
    if tier == "quick":
        rs.append(add("all4", 4, langlib.ALL_PRODS, roots=("I", "B", "R", "O", "F1")))
        rs.append(add("all5", 5, langlib.ALL_PRODS, sample=4000))
        rs.append(add("calls6", 6, langlib.FOCUS["calls"], sample=4000))
        rs.append(add("data6", 6, langlib.FOCUS["data"], sample=3000))
        rs.append(add("sim", 14, langlib.ALL_PRODS, scope=4, simulate=400, depth=15, seed=seed))
    else:
        rs.append(add("all5", 5, langlib.ALL_PRODS, roots=("I", "B", "R", "O", "F1")))
        rs.append(add("all6", 6, langlib.ALL_PRODS, sample=60000, timeout=3000))
        rs.append(add("calls7", 7, langlib.FOCUS["calls"], sample=40000, timeout=3000))
        rs.append(add("data7", 7, langlib.FOCUS["data"], sample=40000, timeout=3000))
        rs.append(add("arith7", 7, langlib.FOCUS["arith"], sample=30000, timeout=3000))
        rs.append(add("sim", 24, langlib.ALL_PRODS, scope=4, simulate=5000, depth=25, seed=seed))
    return outs, stats, rs


judge = langlib.judge


def run(tier):
    t0 = time.time()
    seed = vlib.seed()
    vlib.build_harness()
    V = vlib.Verdicts(PID)
    outs, stats, rs = gen(tier, seed)
    seen = set()
    jobs = []
    for o in outs:
        k = langlib.key_of(o["p"])
        if k in seen:
            continue
        seen.add(k)
        jobs.append({"id": len(jobs), "src": langlib.render(o["p"]), "o": o})
    vlib.log("[C01] %d programs from TLC (%s)" % (len(jobs), {k: v["programs"] for k, v in stats.items()}))
    n = len(jobs)
    res = vlib.run_pool(["lang"], [{"id": j["id"], "src": j["src"], "optimize": False} for j in jobs] +
                        [{"id": n + j["id"], "src": j["src"], "optimize": True} for j in jobs], workers=14, job_timeout=20)
    agree = 0
    nontrivial = 0
    xstats = {}
    for j in jobs:
        r = res.get(j["id"])
        r2 = res.get(n + j["id"])
        if r is None or r2 is None:
            continue
        a1 = judge(V, j["o"], r, "", xstats)
        a2 = judge(V, j["o"], r2, "opt:", xstats)
        if a1 and a2:
            agree += 1
        if any(n[0] in ("app1", "app2", "papp", "mopt", "mopt3", "mpart", "mlit", "mlist", "mlistd", "mtup", "mrec", "recf") for n in j["o"]["p"]):
            nontrivial += 1
    rc = V.finish()
    states = sum(r.distinct for r in rs)
    trans = sum(r.generated for r in rs)
    samples = [{"src": j["src"], "expected": langlib.expected(j["o"])} for j in jobs[:: max(1, len(jobs) // 3)][:3]]
    vlib.write_evidence(PID, tier, "model_checking", {
        "states": states, "transitions": trans, "traces_validated_against_impl": len(res),
        "samples": samples, "evaluations": len(res), "distinct_nontrivial": nontrivial, "agreed": agree,
        "rule": "closed well-typed programs enumerated by TLC from Lang.tla (exhaustive up to the stated sizes per production set, seeded samples of the larger sets, -simulate for deep programs), deduplicated by program text; non-trivial = contains a call, a match or a recursive function",
        "corpora": stats, "exhaustive": False, "permitted_arith_skips": xstats.get("permitted_arith_skips", 0), "opt_inconclusive": xstats.get("opt_inconclusive", 0),
        "known_findings_hit": {k: v[1] for k, v in V.known_hits.items()},
    }, ["Lang.tla's Ev is the documented strict call-by-value semantics (evaluation order confirmed against the book and probes)",
        "programs whose reference result leaves the symbolic integer domain are not emitted",
        "every program is run with optimisation off and on (implicit prelude on)"], time.time() - t0, len(V.violations))
    return rc


def replay(path):
    d = json.load(open(path))["replay"]
    src = langlib.render(d["p"])
    res = vlib.run_pool(["lang"], [{"id": 0, "src": src}], workers=1, job_timeout=20)
    r = res[0]
    print(src)
    print("expected:", d["expected"])
    print("observed:", json.dumps(r)[:600])
    kind, val, log = d["expected"]
    ok = (r["status"] == "ok" and kind == "val" and r["value"] == val and r["log"] == log) or (r["status"] == "err" and kind == "err" and r.get("class") == val and r["log"] == log)
    if not ok:
        print("VIOLATION property=%s replay=%s" % (PID, path))
        return 1
    return 0

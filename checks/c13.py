"""C13: heaps are isolated - values crossing threads are complete independent copies."""
import vlib
from checks import heapcommon

PID = "C13"


def run(tier):
    return heapcommon.run_common(PID, tier, heapcommon.C13_KEYS)


def replay(path):
    return heapcommon.replay_file(PID, path)

"""C10: the formatter preserves meaning and comments and is idempotent.
Inputs: Lang.tla programs printed in the concrete styles of C08 (canonical, redundant parentheses with block comments,
line comments with blank lines) and every .glu file of the repository's std library, tests/pass and examples, also
under whitespace perturbation (CRLF, trailing blanks, doubled blank lines).  For each input the formatter's output is
parsed; the record (tree in/out, comments in/out, literals in/out, second formatting) is validated by TLC against the
acceptor Format.tla."""
import glob, hashlib, json, os, random, re, time
import vlib, langlib, astlib
from checks import c08

PID = "C10"
COMMENT = re.compile(r'"(?:[^"\\\n]|\\.)*"|r#*"|\'(?:[^\'\\\n]|\\.)\'|(//[^\n]*|/\*.*?\*/)', re.S)
LITERAL = re.compile(r'("(?:[^"\\\n]|\\.)*"|\'(?:[^\'\\\n]|\\.)\'|(?:(?<=\()-)?(?<![A-Za-z_0-9.])(?:0x[0-9A-Fa-f]+|\d+(?:\.\d+)?(?:[eE][-+]?\d+)?)b?)|//[^\n]*|/\*.*?\*/', re.S)
INT_TOKEN = re.compile(r'"(?:[^"\\\n]|\\.)*"|\'(?:[^\'\\\n]|\\.)\'|//[^\n]*|/\*.*?\*/|(?<![A-Za-z_0-9.#])(\d+)(?![A-Za-z_0-9.])', re.S)


def respell(text):
    """every integer literal gets another spelling of a number (hexadecimal, leading zeros, negative, float with a
    trailing zero, ...): the formatter must reproduce each literal byte for byte"""
    k = [0]
    def sub(m):
        if m.group(1) is None:
            return m.group(0)
        n = int(m.group(1))
        k[0] += 1
        forms = ["0x%X" % n, "(-%d)" % n, "(-0x%X)" % n, "(-%d.0)" % n, "%d.50" % n, "00%d" % n, "(-%d.50)" % n, "(-00%d)" % n]
        return forms[k[0] % len(forms)]
    return INT_TOKEN.sub(sub, text)


def comments(text):
    out = []
    for m in COMMENT.finditer(text):
        if m.group(1):
            c = m.group(1).strip()
            # doc comments attach to items and may be re-flowed: compare their words
            out.append(re.sub(r"\s+", " ", c))
    return out


def literals(text):
    return [m.group(1) for m in LITERAL.finditer(text) if m.group(1)]


def h(x):
    return hashlib.sha1(json.dumps(x, sort_keys=True, default=str).encode()).hexdigest()[:16]


def perturb(text, kind):
    if kind == "crlf":
        return text.replace("\n", "\r\n")
    if kind == "trailing-blanks":
        # comment lines keep their text (doc comments are part of the tree), strings are not touched (no multi-line strings in the corpus)
        return "\n".join(l + "  " if l.strip() and not l.lstrip().startswith("//") and "//" not in l else l for l in text.split("\n"))
    if kind == "blank-lines":
        return re.sub(r"\n\n", "\n\n\n", text)
    return text


def run(tier):
    t0 = time.time()
    seed = vlib.seed()
    rnd = random.Random(seed)
    vlib.build_harness()
    V = vlib.Verdicts(PID)
    progs, lr = langlib.corpus("c10", 4 if tier == "quick" else 5, langlib.ALL_PRODS, roots=("I", "R", "O", "F1"), rng_seed=seed, sample=500 if tier == "quick" else 8000)
    inputs = []
    for o in progs:
        a = langlib.render(o["p"])
        inputs.append(("lang:canonical", a))
        for st, src in c08.styles(a).items():
            inputs.append(("lang:" + st, src))
        inputs.append(("lang:respelled-literals", respell(a)))
        inputs.append(("lang:block-layout", langlib.render_block(o["p"])))
    files = sorted(glob.glob(vlib.REPO + "/std/**/*.glu", recursive=True) + glob.glob(vlib.REPO + "/tests/pass/*.glu") + glob.glob(vlib.REPO + "/examples/**/*.glu", recursive=True))
    if tier == "quick":
        files = files[::2]
    for fpath in files:
        text = open(fpath, encoding="utf-8").read()
        name = os.path.relpath(fpath, vlib.REPO)
        inputs.append(("file:%s" % name, text))
        for kind in (["crlf"] if tier == "quick" else ["crlf", "trailing-blanks", "blank-lines"]):
            inputs.append(("file:%s:%s" % (name, kind), perturb(text, kind)))
    jobs = [{"id": i, "src": s, "kind": k} for i, (k, s) in enumerate(inputs)]
    vlib.log("[C10] %d inputs (%d generated programs x styles, %d repository files)" % (len(jobs), len(progs), len(files)))
    def pool(js):
        return vlib.run_pool(["lang"], js, workers=14, job_timeout=60)
    f1 = pool([{"id": j["id"], "src": j["src"], "mode": "format"} for j in jobs])
    ok1 = [j for j in jobs if f1.get(j["id"], {}).get("status") == "ok"]
    f2 = pool([{"id": j["id"], "src": f1[j["id"]]["value"], "mode": "format"} for j in ok1])
    p_in = pool([{"id": j["id"], "src": j["src"], "mode": "parse"} for j in ok1])
    p_out = pool([{"id": j["id"], "src": f1[j["id"]]["value"], "mode": "parse"} for j in ok1])
    wd = vlib.workdir("c10")
    trace = os.path.join(wd, "trace.ndjson")
    checked = 0
    with open(trace, "w") as f:
        for j in jobs:
            r = f1.get(j["id"])
            if r is None:
                continue
            parts = j["kind"].split(":")
            label = j["kind"] if parts[0] == "file" else "lang:" + parts[1]
            rep = {"kind": j["kind"], "src": j["src"][:4000]}
            if r["status"] in ("panic", "crash", "hang"):
                V.violation("formatter-%s:%s" % (r["status"], r.get("panic_at") or r["msg"][:50]), "the formatter %s on %s" % (r["status"], j["kind"]), rep)
                continue
            if r["status"] != "ok":
                pi = None
                if parts[0] == "lang" or len(parts) < 3:
                    V.violation("formatter-rejects:%s" % label, "a program that parses is rejected by the formatter (%s): %s" % (j["kind"], r["msg"][:300]), rep)
                else:
                    V.divergence("formatter error on perturbed %s: %s" % (j["kind"], r["msg"][:80]))
                continue
            out = r["value"]
            again = f2.get(j["id"], {})
            a, b = p_in.get(j["id"], {}), p_out.get(j["id"], {})
            if a.get("status") != "ok":
                continue          # the input itself does not parse as an expression (not a formatter matter)
            rec = {"out": h(out), "again": h(again.get("value")) if again.get("status") == "ok" else "error:" + again.get("msg", "")[:40]}
            if b.get("status") != "ok":
                # the recorded defect: a parenthesised `let .. in ..` loses its `in` (the message names the missing token)
                cause = "paren-let-in" if re.search(r"\(\s*let\b", j["src"]) and re.search(r"Expected\s+in\b", b.get("msg", "")) else "other"
                V.violation("output-unparsable:%s:%s" % (label, cause), "the formatter's output does not parse (%s): %s" % (j["kind"], b.get("msg", "")[:300]), dict(rep, out=out[:4000]))
                continue
            try:
                ta = astlib.normalise(astlib.parse_debug(a["value"]))
                tb = astlib.normalise(astlib.parse_debug(b["value"]))
            except Exception as e:
                V.divergence("AST dump not parsed for %s: %s" % (j["kind"], e))
                continue
            rec.update({"tree_in": h(ta), "tree_out": h(tb), "comments_in": h(comments(j["src"])), "comments_out": h(comments(out)),
                        "literals_in": h(literals(j["src"])), "literals_out": h(literals(out))})
            f.write(json.dumps(rec) + "\n")
            checked += 1
            if rec["tree_in"] != rec["tree_out"]:
                V.violation("changes-tree:%s" % label, "formatting changes the abstract syntax tree of %s" % j["kind"], dict(rep, out=out[:4000]))
            elif rec["comments_in"] != rec["comments_out"]:
                ci, co = comments(j["src"]), comments(out)
                d = next((x for x in zip(ci + [None] * len(co), co + [None] * len(ci)) if x[0] != x[1]), None)
                V.violation("changes-comments:%s" % label, "formatting changes the comments of %s: %s" % (j["kind"], d), dict(rep, out=out[:4000]))
            elif rec["literals_in"] != rec["literals_out"]:
                li, lo = literals(j["src"]), literals(out)
                d = next((x for x in zip(li + [None] * len(lo), lo + [None] * len(li)) if x[0] != x[1]), None)
                V.violation("changes-literals:%s" % label, "formatting changes a literal of %s: %s" % (j["kind"], d), dict(rep, out=out[:4000]))
            elif rec["again"] != rec["out"]:
                V.violation("not-idempotent:%s" % label, "formatting the output of %s again changes it" % j["kind"], dict(rep, out=out[:4000], again=again.get("value", "")[:4000]))
    tv = vlib.run_tlc("Format", "Trace_Format", workers=1, timeout=1200, env={"TRACE": trace}, dfs=True, xss="1g", xmx="4g")
    if tv.violation and not V.violations and not V.known_hits:
        V.violation("trace-rejected", "Format.tla rejects the recorded events: %s" % tv.out[-300:], {})
    rc = V.finish()
    vlib.write_evidence(PID, tier, "exploration", {
        "evaluations": len(f1) + len(f2), "distinct_nontrivial": checked, "trace_accepted_by_tlc": tv.violation is None,
        "generated_programs": len(progs), "repository_files": len(files),
        "rule": "Lang.tla programs in three concrete styles + the .glu files of std, tests/pass and examples (plain and perturbed: %s); non-trivial = inputs for which input and output parse and the four preservation clauses were evaluated" % ("CRLF" if tier == "quick" else "CRLF, trailing blanks, doubled blank lines"),
        "samples": [jobs[0]["kind"], jobs[-1]["kind"]],
        "known_findings_hit": {k: v[1] for k, v in V.known_hits.items()}, "divergences": V.divergences[:10],
    }, ["comments are compared as whitespace-normalised text in order; literals are string / char / number tokens in order",
        "trees are compared after removing positions, symbol addresses and redundant parentheses"], time.time() - t0, len(V.violations))
    return rc


def replay(path):
    d = json.load(open(path))["replay"]
    r = vlib.run_pool(["lang"], [{"id": 0, "src": d["src"], "mode": "format"}], workers=1, job_timeout=60)[0]
    print(r["status"], r["msg"][:300]); print(r["value"][:1500])
    print("VIOLATION property=%s replay=%s" % (PID, path))
    return 1

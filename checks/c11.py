"""C11: marshalling between Rust and Gluon is lossless and type-faithful.
Marshal.tla gives, for ~70 Rust types closed under Option / Result / Vec / tuple / BTreeMap / derived struct+enum to
depth 3 and for boundary values of each, the VM representation Pushable must build (Rep), its inverse (Get), the
representation of the serde bridge (SerRep; "faithful" = the property, "coded" = ser.rs as written) and the
signature-compatibility matrix.  TLC checks the round-trip / injectivity / signature laws on the model and emits
every case; the harness replays them on a real VM: Pushable + projection of the VM value, Getable, a Gluon identity
function, the value compiled from the Gluon literal, Ser / De, and get_global at every (Rust type, global) pair."""
import json, os, random, time
import vlib
import marshallib as M

PID = "C11"


def model(cfg):
    r = vlib.run_tlc("Marshal", cfg, workers=1, timeout=900, print_prefix='"CASE"', xss="512m")
    if r.violation or "No error has been found" not in r.out:
        raise vlib.ToolError("Marshal.tla (%s): an assumed law is false" % cfg)
    cases = [c for c in (vlib.tlc_value_to_json(l) for l in r.prints) if c]
    return cases, r


def sigs():
    r = vlib.run_tlc("Marshal", "MC_Marshal", workers=1, timeout=900, print_prefix='"SIG"', xss="512m")
    return [c for c in (vlib.tlc_value_to_json(l) for l in r.prints) if c]


def globals_module(sig_rows, by_type):
    """one global per type in Globals, named g<k>; the value is the second listed value of the type with a literal"""
    names, lines, values = {}, [M.LIT_PRELUDE.rstrip(), "let { Map } = import! std.map"], {}
    gl = sorted({json.dumps(s["global"]) for s in sig_rows})
    for k, gj in enumerate(gl):
        g = json.loads(gj)
        name = "g%d" % k
        tn = M.tname(g)
        if g == ["poly-id"]:
            lines.append("let %s x = x" % name)
        elif g[0] == "fn":
            gt = next(s["gtype"] for s in sig_rows if s["global"] == g)
            lines.append("let %s : %s = %s" % (name, gt, M.FN_BODY[tn]))
        else:
            gt = next(s["gtype"] for s in sig_rows if s["global"] == g)
            vals = [M.rv(c["value"]) for c in by_type[tn]]
            cand = [v for v in vals[1:] + vals[:1] if M.lit(v) is not None]
            v = cand[0]
            values[tn] = v
            lines.append("let %s : %s = %s" % (name, gt.replace("mtypes.", ""), M.lit(v)))
        names[gj] = name
    lines.append("{ %s }" % ", ".join(sorted(set(names.values()), key=lambda s: int(s[1:]))))
    return "\n".join(lines) + "\n", names, values


def run(tier):
    t0 = time.time()
    seed = vlib.seed()
    rng = random.Random(seed)
    vlib.build_harness()
    V = vlib.Verdicts(PID)
    cases, r_coded = model("MC_Marshal")
    fcases, r_faith = model("MC_Marshal_Faithful")          # the laws under the bridge the property describes
    sig_rows = sigs()
    by_type = {}
    for c in sorted(cases, key=lambda c: (M.tname(c["type"]), c["index"])):
        by_type.setdefault(M.tname(c["type"]), []).append(c)
    sup = vlib.run_pool(["marshal"], [{"id": 0, "op": "supported"}], workers=1, job_timeout=60)[0]
    missing = sorted(set(by_type) - set(sup.get("supported", [])))
    if missing:
        raise vlib.ToolError("the harness has no Rust type for %s" % missing)
    variants = 1 if tier == "quick" else 60
    jobs, meta = [], {}
    for tn, cs_all in by_type.items():
        for var in range(variants):
            A = M.ATOMS if var == 0 else M.random_atoms(rng)
            for c1 in cs_all:               # one job per value: a crash of the process costs one value
                cs = [c1]
                vals = [M.rv(c["value"], A) for c in cs]
                j = {"id": len(jobs), "op": "vals", "type": tn, "values": vals, "lits": [M.lit_program(v) for v in vals]}
                meta[j["id"]] = (tn, cs, A, vals)
                jobs.append(j)
    res = vlib.run_pool(["marshal"], jobs, workers=14, job_timeout=120)
    evaluations = 0
    routes = {}
    reps_seen = set()
    for j in jobs:
        tn, cs, A, vals = meta[j["id"]]
        r = res.get(j["id"])
        if r is None or r.get("status") != "ok":
            V.violation("process:%s:%s" % ((r or {}).get("status"), tn.split("(")[0]), "the process did not survive marshalling %s value %s: %s" % (tn, json.dumps(vals[0], ensure_ascii=False)[:200], json.dumps(r)[-700:]), {"job": j})
            continue
        for c, v, o in zip(cs, vals, r["results"]):
            t = c["type"]
            rep = M.rr(c["rep"], A)
            has_map = "map" in M.constructors(t)
            evaluations += 1
            reps_seen.add(json.dumps(c["rep"]))
            ctors = "+".join(sorted(set(M.constructors(t))))
            def bad(route, what, detail, suffix=""):
                V.violation("%s:%s:%s%s" % (route, what, ctors, suffix), "%s of %s value %s: %s" % (route, tn, json.dumps(v, ensure_ascii=False)[:300], detail),
                            {"type": t, "value": v, "lit": M.lit_program(v), "route": route, "what": what, "observed": o.get(route)})
            for route in ("direct", "function", "literal", "serde", "serde_function"):
                x = o.get(route)
                if x is None:
                    continue
                routes[route] = routes.get(route, 0) + 1
                if "panic" in x:
                    bad(route, "panic", "panic %s at %s" % (x["panic"][:200], x.get("at")), "@" + (x.get("at") or "?").split("/")[-1])
                    continue
                if "error" in x:
                    bad(route, "error", x["error"][:300])
                    continue
                if "rep" in x and route != "serde":
                    if not M.rep_matches(rep, x["rep"]):
                        bad(route, "representation", "Gluon observes %s, the specification says %s" % (json.dumps(x["rep"], ensure_ascii=False)[:300], json.dumps(rep, ensure_ascii=False)[:300]))
                if route == "serde" and not has_map:
                    if not M.rep_matches(rep, x["rep"]):
                        # SerRep with SerMode = "coded" is the specification of the known deviations of ser.rs: a
                        # representation it predicts is the recorded finding, anything else is new
                        ser = M.rr(c["ser"], A)
                        kind = "representation-as-coded" if M.rep_matches(ser, x["rep"]) else "representation-unmodelled"
                        bad(route, kind, "the bridge pushes %s where Gluon code of this type expects %s" % (json.dumps(x["rep"], ensure_ascii=False)[:300], json.dumps(rep, ensure_ascii=False)[:300]))
                for fld in ("back", "de"):
                    if fld in x:
                        y = x[fld]
                        if isinstance(y, dict):
                            bad(route, fld + "-" + ("panic" if "panic" in y else "error"), json.dumps(y)[:300])
                        elif y != v:
                            bad(route, fld + "-differs", "came back as %s" % json.dumps(y, ensure_ascii=False)[:300])
    # Gluon code reads the fields of derived records / struct-like variants by name
    fr = vlib.run_pool(["marshal"], [{"id": 0, "op": "fields"}], workers=1, job_timeout=120)[0]
    if fr.get("status") != "ok":
        raise vlib.ToolError("the field probe did not run: %s" % json.dumps(fr)[:400])
    for name, want in fr["expected"].items():
        evaluations += 1
        if fr[name] != want:
            V.violation("fields:%s" % name, "Gluon code reading field `%s` of a value pushed by the derived Pushable observes %s, the Rust value has %s" % (name, json.dumps(fr[name])[:300], json.dumps(want)),
                        {"op": "fields", "field": name, "observed": fr[name], "expected": want})
    # signatures
    src, names, gvals = globals_module(sig_rows, by_type)
    reqs = [{"rust": M.tname(s["rust"]), "global": "mglob." + names[json.dumps(s["global"])]} for s in sig_rows]
    chunks = [list(range(i, min(i + 60, len(reqs)))) for i in range(0, len(reqs), 60)]
    sjobs = [{"id": k, "op": "sig", "source": src, "requests": [reqs[i] for i in ch]} for k, ch in enumerate(chunks)]
    g = vlib.run_pool(["marshal"], [{"id": 0, "op": "globals", "source": src}], workers=1, job_timeout=120)[0]
    if g.get("status") != "ok":
        raise vlib.ToolError("the module of globals does not load: %s" % g.get("msg", g)[:600])
    sres = vlib.run_pool(["marshal"], sjobs, workers=14, job_timeout=120)
    accepted = refused = 0
    for k, ch in enumerate(chunks):
        r = sres.get(k)
        if r is None or r.get("status") != "ok":
            V.violation("harness:sig", "signature job failed: %s" % json.dumps(r)[:400], {"job": sjobs[k]})
            continue
        for i, o in zip(ch, r["results"]):
            s = sig_rows[i]
            rn, gn = M.tname(s["rust"]), M.tname(s["global"])
            evaluations += 1
            rep = {"rust": s["rust"], "global": s["global"], "gtype": s["gtype"], "source": src, "request": reqs[i], "observed": o}
            if o.get("unsupported"):
                raise vlib.ToolError("harness has no Rust type %s" % rn)
            if "panic" in o:
                V.violation("signature:panic:%s<-%s" % (rn, gn), "requesting global of type %s at Rust type %s panics: %s" % (s["gtype"], rn, o["panic"][:200]), rep)
            elif o["accepted"] and not s["accept"]:
                V.violation("signature:accepted-mismatch:%s<-%s" % (rn, gn), "a global of type %s is handed out at Rust type %s" % (s["gtype"], rn), rep)
            elif not o["accepted"] and s["accept"]:
                V.violation("signature:refused-match:%s<-%s" % (rn, gn), "a global of type %s is refused at Rust type %s: %s" % (s["gtype"], rn, o.get("error")), rep)
            else:
                if o["accepted"]:
                    accepted += 1
                    if "value" in o and rn in gvals and o["value"] != gvals[rn]:
                        V.violation("signature:value:%s" % rn, "global read back as %s, defined as %s" % (json.dumps(o["value"])[:200], json.dumps(gvals[rn])[:200]), rep)
                else:
                    refused += 1
    rc = V.finish()
    vlib.write_evidence(PID, tier, "exploration", {
        "evaluations": evaluations, "distinct_nontrivial": len(reps_seen) + len(sig_rows),
        "types": len(by_type), "cases_from_model": len(cases), "atom_variants_per_case": variants, "routes": routes,
        "signature_requests": len(sig_rows), "signature_accepted": accepted, "signature_refused": refused,
        "rule": "every (type, value) of Marshal.tla (%d types to nesting depth 3, boundary atoms%s) through 5 routes; every (Rust type, global) pair of the signature matrix; distinct_nontrivial = distinct model representations + signature pairs" % (len(by_type), "" if variants == 1 else " and %d seeded random re-instantiations of the atoms" % (variants - 1)),
        "model_laws": "RoundTrip, Injective(Rep), SigSound, Confusable # {} checked by TLC as assumptions; SerFaithful and Injective(SerRep) hold for the faithful bridge and both fail for the bridge as coded",
        "samples": [jobs[0]["values"][:2], reqs[:2]],
        "known_findings_hit": {k: v[1] for k, v in V.known_hits.items()},
        "other_property_divergences": V.divergences[:10],
    }, ["the Rust types are a fixed table in the harness (one monomorphic instantiation per type term of the model)",
        "values containing a std.map tree are compared by meaning (round trip), not by representation",
        "Data without fields and a bare Tag are the same observation for compiled Gluon code"], time.time() - t0, len(V.violations))
    return rc


def replay(path):
    d = json.load(open(path))["replay"]
    if "job" in d:
        print(json.dumps(vlib.run_pool(["marshal"], [d["job"]], workers=1, job_timeout=120)[0])[:3000])
        print("VIOLATION property=%s replay=%s" % (PID, path)); return 1
    if d.get("op") == "fields":
        fr = vlib.run_pool(["marshal"], [{"id": 0, "op": "fields"}], workers=1, job_timeout=120)[0]
        print(json.dumps(fr)[:1500])
        if fr.get(d["field"]) != d["expected"]:
            print("VIOLATION property=%s replay=%s" % (PID, path)); return 1
        return 0
    if "request" in d:
        r = vlib.run_pool(["marshal"], [{"id": 0, "op": "sig", "source": d["source"], "requests": [d["request"]]}], workers=1, job_timeout=120)[0]
        print(json.dumps(r)[:2000])
        o = r["results"][0]
        expect = d["rust"] == d["global"] or (d["global"] == ["poly-id"] and d["rust"][0] == "fn" and d["rust"][1] == d["rust"][2])
        if "panic" in o or o.get("accepted") != expect:
            print("VIOLATION property=%s replay=%s" % (PID, path)); return 1
        return 0
    j = {"id": 0, "op": "vals", "type": M.tname(d["type"]), "values": [d["value"]], "lits": [d.get("lit")]}
    r = vlib.run_pool(["marshal"], [j], workers=1, job_timeout=120)[0]
    print(json.dumps(r, ensure_ascii=False)[:3000])
    o = r["results"][0].get(d["route"])
    if o != d["observed"] or True:
        x = o or {}
        okay = "panic" not in x and "error" not in x and all(x.get(f, d["value"]) == d["value"] for f in ("back", "de"))
        if not okay or d["route"] in ("serde", "direct", "literal"):
            # representation mismatches are re-judged by the full check; a replay reports what was observed
            if not okay or x.get("rep") == (d["observed"] or {}).get("rep"):
                print("VIOLATION property=%s replay=%s" % (PID, path)); return 1
    return 0

"""C05: garbage collection is transparent and never frees a reachable value."""
import vlib
from checks import heapcommon

PID = "C05"


def run(tier):
    return heapcommon.run_common(PID, tier, heapcommon.C05_KEYS)


def replay(path):
    return heapcommon.replay_file(PID, path)

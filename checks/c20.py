"""C20: editor queries are total and agree with the typechecker.
Programs from Lang.tla (complete, truncated at token boundaries, with one token deleted - Mutate.tla scripts) are
queried at every byte offset: completion, type-at-position, signature help, metadata, symbols.  No query may panic;
at every variable occurrence of a complete program the reported type must be the type Lang.tla's typing gives the
variable and every suggested local name must be in scope (Lang.tla's scopes).  The per-program records are validated
by TLC against the acceptor Editor.tla."""
import json, os, random, re, time
import vlib, langlib
from checks import c09

PID = "C20"


def norm_type(t):
    return re.sub(r"\s+", " ", t.replace("\n", " ")).strip()


def generalises(reported, expected):
    """the type the editor reports may be more general than the generator's monomorphic typing (`let v = None` has type
    `Option a`, the generator uses it at Option Int): a type variable of the reported type stands for any type"""
    r = re.sub(r"^forall [a-z0-9 ]+\. ", "", reported)
    # an open row tail on a value that went through a row-polymorphic function (the checker leaves the tail
    # un-unified, see the C03 findings) stands for the empty row here
    r = re.sub(r" \| [a-z][a-z0-9_]* \}", " }", r)
    if r == expected:
        return True
    pat = "".join("(.+)" if re.fullmatch(r"[a-z][a-z0-9_]*", tok) else re.escape(tok) for tok in re.split(r"(\b[a-z][a-z0-9_]*\b)", r))
    return re.fullmatch(pat, expected) is not None


def run(tier):
    t0 = time.time()
    seed = vlib.seed()
    rnd = random.Random(seed)
    vlib.build_harness()
    V = vlib.Verdicts(PID)
    progs, lr = langlib.corpus("c20", 4 if tier == "quick" else 5, langlib.ALL_PRODS, roots=("I", "R", "O", "F1"), rng_seed=seed, sample=250 if tier == "quick" else 4000)
    # a corpus focused on patterns (record patterns binding fields under other names, tuple and option patterns)
    pats, _lr2 = langlib.corpus("c20pat", 5 if tier == "quick" else 6, ["var", "lit", "add", "let", "mkr", "mkp", "mrec", "mtup", "some", "mopt", "lam1"],
                                roots=("I", "F1"), rng_seed=seed + 1, sample=200 if tier == "quick" else 4000)
    progs = progs + [o for o in pats if any(n[0] in ("mrec", "mtup", "mopt") for n in o["p"])]
    cfg = "SPECIFICATION Spec\nCONSTANTS\n  Slots = 12\n  MaxEdits = 1\n  Emit = TRUE\nINVARIANTS SmallEdit EmitScript\nCHECK_DEADLOCK FALSE\n"
    open(os.path.join(vlib.SPEC, "_c20.cfg"), "w").write(cfg)
    mt = vlib.run_tlc("Mutate", "_c20", workers=2, timeout=600, print_prefix='"EDIT"')
    os.remove(os.path.join(vlib.SPEC, "_c20.cfg"))
    scripts = sorted((s for s in (vlib.tlc_value_to_json(l) for l in mt.prints) if s and s[0][0] in ("delete", "truncate")), key=json.dumps)
    jobs, meta = [], {}
    for o in progs:
        src, vars_ = langlib.render_with_vars(o["p"])
        jobs.append({"id": len(jobs), "src": src, "mode": "editor", "step": 1})
        meta[len(jobs) - 1] = ("complete", o, vars_)
        for s in (rnd.sample(scripts, 4) if tier == "quick" else scripts):
            m = c09.apply_script(src, s)
            jobs.append({"id": len(jobs), "src": m, "mode": "editor", "step": 1})
            meta[len(jobs) - 1] = (s[0][0], o, None)
    vlib.log("[C20] %d programs, %d inputs (complete + truncated / token-deleted)" % (len(progs), len(jobs)))
    res = vlib.run_pool(["lang"], jobs, workers=14, job_timeout=120)
    wd = vlib.workdir("c20")
    trace = os.path.join(wd, "trace.ndjson")
    queries = typed_checks = full_checks = 0
    with open(trace, "w") as f:
        for j in jobs:
            r = res.get(j["id"])
            if r is None:
                continue
            kind, o, vars_ = meta[j["id"]]
            rep = {"src": j["src"], "kind": kind}
            if r["status"] in ("panic", "crash", "hang"):
                V.violation("editor-%s:%s:%s" % (r["status"], kind, r.get("panic_at") or r["msg"].strip()[:40]), "editor queries %s the host on a %s program: %s\n%s" % (r["status"], kind, r["msg"][-300:], j["src"][:400]), rep)
                continue
            v = json.loads(r["value"])
            queries += v["queries"]
            returned = not v["panics"]
            for p in v["panics"][:1]:
                V.violation("query-panic:%s:%s" % (p["query"], p["at"] or p["msg"][:40]), "%s at byte %d panicked (%s): %s\n%s" % (p["query"], p["pos"], p["at"], p["msg"][:200], j["src"][:600]), dict(rep, panic=p))
            type_ok = scope_ok = True
            if kind == "complete" and v["typed"] and vars_:
                finds = dict((a, b) for a, b in v["finds"])
                sugg = dict((a, b) for a, b in v["suggests"])
                # names offered where the main expression starts: the prelude and what the preamble binds
                start = len(langlib.PREAMBLE)
                always = set(sugg.get(start, [])) or None
                for off, idx, ty, depth in vars_:
                    typed_checks += 1
                    want = langlib.GLUON_TYPE.get(ty)
                    got = finds.get(off)
                    if want and got is not None and not generalises(norm_type(got), want):
                        type_ok = False
                        V.violation("wrong-type-at-identifier:%s" % ty, "type at the identifier v%d (byte %d) is reported as `%s`, the checker's type is `%s`\n%s" % (idx, off, norm_type(got), want, j["src"]), dict(rep, offset=off))
                    # completion right after the `v`: every suggested v<k> must be one of the k <= depth enclosing binders
                    names = sugg.get(off + 1, [])
                    bad = [n for n in names if re.fullmatch(r"v\d+", n) and int(n[1:]) > depth]
                    if bad:
                        scope_ok = False
                        V.violation("suggestion-out-of-scope", "at byte %d (inside v%d, %d binders in scope) the completion suggests %s\n%s" % (off + 1, idx, depth, bad, j["src"]), dict(rep, offset=off + 1))
                    # completion with an empty prefix just before the occurrence (on the `(` or blank): everything that is
                    # not offered at the start of the program must be one of the enclosing binders - in particular not the
                    # label of a record-pattern field that is bound under another name
                    # (asked only where the occurrence follows " (": next to the end of another expression the engine answers
                    # for that expression, which is a different question)
                    full = sugg.get(off - 1, []) if off >= 2 and j["src"][off - 1] in " (" and j["src"][off - 2] in " (>=,+-*<|&" else []
                    if len(full) > 5 and always is not None:
                        full_checks += 1
                        # (names starting with an upper-case letter are types or constructors, not pattern binders)
                        extra = [n for n in full if n not in always and not n[:1].isupper() and not (re.fullmatch(r"v\d+", n) and int(n[1:]) <= depth)]
                        if extra:
                            scope_ok = False
                            cls = sorted({"wildcard" if n == "_" else "label" if n in ("x", "y") else "variable" if re.fullmatch(r"v\d+", n) else "other" for n in extra})
                            V.violation("suggestion-not-a-binder:" + "+".join(cls), "at byte %d (%d binders in scope) the completion offers %s, which no enclosing pattern binds\n%s" % (off - 1, depth, extra, j["src"]), dict(rep, offset=off - 1))
            f.write(json.dumps({"returned": returned, "type_ok": type_ok, "scope_ok": scope_ok}) + "\n")
    tv = vlib.run_tlc("Editor", "Trace_Editor", workers=1, timeout=900, env={"TRACE": trace}, dfs=True, xss="1g", xmx="4g")
    if tv.violation and not V.violations and not V.known_hits:
        V.violation("trace-rejected", "Editor.tla rejects the recorded events: %s" % tv.out[-300:], {})
    rc = V.finish()
    vlib.write_evidence(PID, tier, "exploration", {
        "evaluations": queries, "empty_prefix_scope_checks": full_checks, "distinct_nontrivial": len(res), "identifier_type_checks": typed_checks, "trace_accepted_by_tlc": tv.violation is None,
        "rule": "Lang.tla programs (complete, and with one Mutate.tla edit: a token deleted or the text truncated at a token boundary), five queries at every byte offset; identifier types and suggestion scopes are checked at every variable occurrence of the complete programs; non-trivial = programs queried",
        "samples": [jobs[0]["src"][-200:]], "known_findings_hit": {k: v[1] for k, v in V.known_hits.items()},
    }, ["programs that do not typecheck are queried on the partially parsed tree (totality only)",
        "the expected type of a variable comes from Lang.tla's monomorphic typing rendered as gluon prints it"], time.time() - t0, len(V.violations))
    return rc


def replay(path):
    d = json.load(open(path))["replay"]
    r = vlib.run_pool(["lang"], [{"id": 0, "src": d["src"], "mode": "editor", "step": 1}], workers=1, job_timeout=120)[0]
    print(d["src"][:600]); print(r["status"], r["value"][:800] if r["status"] == "ok" else r["msg"][:400])
    v = json.loads(r["value"]) if r["status"] == "ok" else {"panics": [1]}
    if r["status"] != "ok" or v["panics"]:
        print("VIOLATION property=%s replay=%s" % (PID, path)); return 1
    return 0

"""C15: modules are evaluated once, cycles are rejected, reloads are never stale.
Modules.tla models the sources, the memo discipline and the reference `Answer` (what a fresh VM answers); TLC checks
NeverStale on the design (and that a memo which skips one dependency is rejected).  TLC-generated edit histories are
replayed on one long-lived VM: after every `import!` the result class / value, the error kind and the set of module
bodies that ran (host.tick) are compared with the model, which also bounds what may run (EvalOnce)."""
import json, os, random, re, time
import vlib

PID = "C15"


def mod_src(m, imports, body):
    lines = ["let { tick } = import! host"]
    for d in sorted(imports):
        lines.append("let d%d = import! m%d" % (d, d))
    if body == "int1":
        lines.append("tick %d 1" % m)
    elif body == "int2":
        lines.append("tick %d 2" % m)
    elif body == "str":
        lines.append("if tick %d 0 == 0 then \"s\" else \"t\"" % m)
    elif body == "tyerr":
        lines.append("tick %d (1 + \"a\")" % m)
    elif body == "use":
        lines.append("tick %d (10%s)" % (m, "".join(" + d%d" % d for d in sorted(imports))))
    return "\n".join(lines) + "\n"


def expected_value(ans):
    if ans[0] == "int":
        return str(ans[1])
    if ans[0] == "str":
        return '"s"'
    return None


def classify_errs(msg):
    """all error kinds reported (the VM reports every failing import, the model names the first)"""
    low = msg.lower()
    out = set()
    if "cyclic" in low or "cycle" in low:
        out.add("cycle")
    if "could not find module" in low:
        out.add("missing")
    if "expected the following types to be equal" in low or "types do not match" in low:
        out.add("type")
    return out or {"other"}


def classify_err(msg):
    return "+".join(sorted(classify_errs(msg)))


def histories(tier, seed):
    n = 250 if tier == "quick" else 4000
    r = vlib.run_tlc("Modules", "Sim_Modules", workers=8, simulate=n, depth=9, seed_=seed, timeout=1500, print_prefix='"HIST"')
    hs = [h for h in (vlib.tlc_value_to_json(l) for l in r.prints) if h]
    if r.violation:
        raise vlib.ToolError("Modules.tla violated %s in simulation" % r.violation)
    # exhaustive short histories over two modules
    cfg = "SPECIFICATION Spec\nCONSTANTS\n  NMod = 2\n  MaxSteps = %d\n  Emit = TRUE\n  SkipDep = 0\nINVARIANTS NeverStale EmitHist\nCHECK_DEADLOCK FALSE\n" % (3 if tier == "quick" else 4)
    open(os.path.join(vlib.SPEC, "_c15.cfg"), "w").write(cfg)
    e = vlib.run_tlc("Modules", "_c15", workers=8, timeout=1500, print_prefix='"HIST"')
    os.remove(os.path.join(vlib.SPEC, "_c15.cfg"))
    hs2 = [h for h in (vlib.tlc_value_to_json(l) for l in e.prints) if h]
    hs2 = [h for h in hs2 if any(s["op"] == "eval" for s in h)]
    if len(hs2) > 40000:
        # the 4-step histories over two modules number ~130 000; a seeded sample keeps the thorough tier within the hour
        hs2.sort(key=lambda h: json.dumps(h, sort_keys=True))
        hs2 = random.Random(seed + 5).sample(hs2, 40000)
    return hs, hs2, r, e


def run(tier):
    t0 = time.time()
    seed = vlib.seed()
    rnd = random.Random(seed)
    vlib.build_harness()
    V = vlib.Verdicts(PID)
    mc = vlib.run_tlc("Modules", "MC_Modules", workers=8, timeout=1500)
    if mc.violation:
        V.violation("model:" + mc.violation, "Modules.tla violates %s" % mc.violation, {"trace": mc.trace})
    mut = vlib.run_tlc("Modules", "MC_Modules_mut", workers=4, timeout=600)
    hs, hs2, r1, r2 = histories(tier, seed)
    allh = hs + hs2
    seen, jobs = set(), []
    for h in allh:
        k = json.dumps(h, sort_keys=True)
        if k in seen:
            continue
        seen.add(k)
        steps = []
        for s in h:
            if s["op"] == "edit":
                steps.append({"op": "edit", "name": "m%d" % s["m"], "src": mod_src(s["m"], s["imports"], s["body"])})
            else:
                steps.append({"op": "eval", "name": "m%d" % s["m"]})
        jobs.append({"id": len(jobs), "history": steps, "model": h})
    vlib.log("[C15] %d histories (%d simulated, %d exhaustive)" % (len(jobs), len(hs), len(hs2)))
    res = vlib.run_pool(["modules"], [{"id": j["id"], "history": j["history"]} for j in jobs], workers=14, job_timeout=60)
    evals = nontrivial = 0
    for j in jobs:
        r = res.get(j["id"])
        if r is None:
            continue
        if r.get("status") in ("hang", "crash"):
            step = r["log"][-1][0] if r.get("log") else 0
            step = max(0, min(step, len(j["model"]) - 1))
            ms = j["model"][step]
            cyc = ms.get("ans", [None, None])[1] == "cycle" if ms["op"] == "eval" else False
            V.violation("history:%s:%s" % (r["status"], "cyclic-import" if cyc else ms["op"]), "the VM %s at step %d (%s) of an edit history: %s" % (r["status"], step, ms["op"], r.get("msg", "")[-300:]), {"history": j["history"], "model": j["model"]})
            continue
        edits_since_eval = 0
        imports_of, obs_ran = {}, set()
        for k, (ms, rs) in enumerate(zip(j["model"], r["steps"])):
            if rs.get("status") == "panic":
                V.violation("panic:%s:%s" % (ms["op"], re.sub(r"\d+", "N", rs.get("msg", ""))[:60]), "step %d (%s) panicked: %s" % (k, ms["op"], rs.get("msg", "")[:300]), {"history": j["history"], "model": j["model"], "step": k})
                break
            if ms["op"] != "eval":
                edits_since_eval += 1
                # what the VM has really run: an edit that changes a module forgets it and everything that imports it
                imports_of[ms["m"]] = set(ms.get("imports", []))
                if ms.get("changed", True):
                    stale, grew = {ms["m"]}, True
                    while grew:
                        grew = False
                        for mm, deps in imports_of.items():
                            if mm not in stale and deps & stale:
                                stale.add(mm)
                                grew = True
                    obs_ran -= stale
                continue
            evals += 1
            if edits_since_eval:
                nontrivial += 1
            edits_since_eval = 0
            ans = ms["ans"]
            rep = {"history": j["history"], "model": j["model"], "step": k, "observed": rs}
            pre = "eval-after-%s" % (j["model"][k - 1]["op"] if k else "start")
            if ans[0] == "err":
                if rs["status"] == "ok":
                    V.violation("stale-or-missed-error:%s:%s" % (ans[1], pre), "the model (fresh VM) answers an error (%s) but the VM returned %s at step %d" % (ans[1], rs["value"], k), rep)
                else:
                    got = classify_err(rs["msg"])
                    if ans[1] not in classify_errs(rs["msg"]):
                        V.violation("wrong-error:%s:%s" % (ans[1], got), "expected a %s error, got: %s" % (ans[1], rs["msg"][:300]), rep)
                    elif ans[1] == "type" and ("m%d" % ans[2]) not in rs["msg"]:
                        V.divergence("type error not located in m%d: %s" % (ans[2], rs["msg"][:80]))
            else:
                if rs["status"] != "ok":
                    V.violation("stale-or-spurious-error:%s:%s" % (classify_err(rs["msg"]), pre), "a fresh VM answers %s but the VM failed at step %d: %s" % (expected_value(ans), k, rs["msg"][:300]), rep)
                elif rs["value"] != expected_value(ans):
                    V.violation("stale-value:%s" % pre, "a fresh VM answers %s, the long-lived VM answered %s at step %d" % (expected_value(ans), rs["value"], k), rep)
            # EvalOnce: bodies that ran in this step
            ticks = rs.get("ticks", [])
            if len(set(ticks)) != len(ticks):
                V.violation("evaluated-twice-in-one-import", "module bodies ran more than once during one import: %s" % ticks, rep)
            # judged against what the VM was actually seen to run (after a recorded stale answer the model and the VM
            # disagree on which bodies have run already)
            extra = {m for m in set(ticks) - set(ms["mayrun"]) if m in obs_ran}
            obs_ran |= set(ticks)
            if extra:
                V.violation("evaluated-again-without-change:%s" % pre, "modules %s ran again although no source changed since they last ran (already evaluated: %s)" % (sorted(extra), ms["evald"]), rep)
    rc = V.finish()
    vlib.write_evidence(PID, tier, "model_checking", {
        "states": mc.distinct + r2.distinct, "transitions": mc.generated + r2.generated, "traces_validated_against_impl": len(res),
        "samples": [[[s["op"], s["m"]] + ([sorted(s["imports"]), s["body"]] if s["op"] == "edit" else [s["ans"]]) for s in jobs[0]["model"]]],
        "evaluations": evals, "distinct_nontrivial": nontrivial, "histories": len(jobs),
        "spec_mutant_rejected_by": mut.violation,
        "rule": "edit histories generated by TLC from Modules.tla: all histories of %d steps over 2 modules and simulated histories of 8 steps over 3 modules (imports of lower modules, one forward / self import for cycles; bodies: two Int constants, a sum of the imports, a String, an ill-typed body), at most two edits in a row; non-trivial = an evaluation that follows at least one edit" % (3 if tier == "quick" else 4),
        "exhaustive": False, "known_findings_hit": {k: v[1] for k, v in V.known_hits.items()}, "divergences": V.divergences[:10],
    }, ["module bodies report their evaluation through host.tick (identifier callee)", "edits use add_module, evaluations `import! m` through run_expr"], time.time() - t0, len(V.violations))
    return rc


def replay(path):
    d = json.load(open(path))["replay"]
    r = vlib.run_pool(["modules"], [{"id": 0, "history": d["history"]}], workers=1, job_timeout=60)[0]
    for ms, rs in zip(d["model"], r.get("steps", [])):
        print(ms["op"], ms["m"], ms.get("ans"), "->", {k: rs.get(k) for k in ("status", "value", "ticks")}, rs.get("msg", "")[:100].replace("\n", " "))
    print("(the verdict needs the model's expectations: re-run ./check C15)")
    print("VIOLATION property=%s replay=%s" % (PID, path))
    return 1

"""C19: standard library structures, codecs and derived instances obey their models.
StdModels.tla defines the mathematical models (finite map ordered by key; sort / filter / fold / append on sequences;
byte offsets and character boundaries of UTF-8 strings); TLC enumerates operation sequences and inputs, checks the
model-level laws and computes the expected results.  The harness runs every case through std.map, std.list,
std.array, std.string; derived Eq / Show and the JSON codec are exercised on seeded random algebraic values."""
import json, os, random, time
import vlib

PID = "C19"
CPS = {1: "a", 2: "é", 3: "€", 4: "😀"}


def cases(part, n, name):
    cfg = "SPECIFICATION Spec\nCONSTANTS\n  MaxOps = %d\n  MaxLen = %d\n  Emit = TRUE\n  Part = \"%s\"\nINVARIANTS Laws EmitCase\nCHECK_DEADLOCK FALSE\n" % (n, n, part)
    open(os.path.join(vlib.SPEC, name + ".cfg"), "w").write(cfg)
    r = vlib.run_tlc("StdModels", name, workers=8, timeout=1800, print_prefix='"CASE"')
    os.remove(os.path.join(vlib.SPEC, name + ".cfg"))
    if r.violation:
        raise vlib.ToolError("StdModels.tla: law %s violated in the model" % r.violation)
    return sorted((c for c in (vlib.tlc_value_to_json(l) for l in r.prints) if c), key=json.dumps), r


def lst(items):
    out = "{0}"
    for it in reversed(items):
        out = "{1|%s,%s}" % (it, out)
    return out


def arr_lit(xs):
    return "[%s]" % ", ".join(str(x) for x in xs) if xs else "(let q : Array Int = [] in q)"


def map_prog(c):
    lines = ["let map = import! std.map", "let optcode o =", "    match o with", "    | Some v -> v", "    | None -> 0",
             "let m0 : map.Map Int Int = map.empty"]
    finds = []
    k = 0
    for i, o in enumerate(c["ops"]):
        if o["op"] == "insert":
            lines.append("let m%d = map.insert %d %d m%d" % (k + 1, o["k"], o["v"], k))
            k += 1
        else:
            lines.append("let f%d = optcode (map.find %d m%d)" % (i, o["k"], k))
            finds.append("f%d" % i)
    lines.append("{ finds = %s, list = map.to_list m%d }" % (("[%s]" % ", ".join(finds)) if finds else "(let q : Array Int = [] in q)", k))
    want = "{0|[%s],%s}" % (",".join(str(x) for x in c["r"]["finds"]), lst(["{0|%d,%d}" % (a, b) for a, b in c["r"]["list"]]))
    return "\n".join(lines) + "\n", want


def jmap_prog(c):
    """the same operation sequences on a Map String Int, observed through the JSON codec (object text, round trip)"""
    KEY = {1: "a", 2: "b", 3: "c"}
    lines = ["let map = import! std.map", "let { Serialize, ? } = import! std.json.ser", "let ser = import! std.json.ser",
             "let { Deserialize, ? } = import! std.json.de", "let de = import! std.json.de", "let { Result } = import! std.result",
             "let m0 : map.Map String Int = map.empty"]
    k = 0
    for o in c["ops"]:
        if o["op"] == "insert":
            lines.append("let m%d = map.insert \"%s\" %d m%d" % (k + 1, KEY[o["k"]], o["v"], k))
            k += 1
    lines += ["let text =", "    match ser.to_string m%d with" % k, "    | Ok s -> s", "    | Err e -> e",
              "let back : Result String (map.Map String Int) = de.deserialize text",
              "let again =", "    match back with", "    | Ok w -> map.to_list w", "    | Err _ -> map.to_list m0",
              "{ text, again }"]
    final = c["r"]["list"]
    text = "{" + ",".join("\"%s\":%d" % (KEY[a], b) for a, b in final) + "}"
    want = "{0|%s,%s}" % (json.dumps(text), lst(["{0|\"%s\",%d}" % (KEY[a], b) for a, b in final]))
    return "\n".join(lines) + "\n", want


def seq_prog(c):
    xs = c["xs"]
    src = ("let list @ { List, ? } = import! std.list\nlet array = import! std.array\nlet { foldl } = import! std.foldable\n"
           "let xs = %s\nlet l = list.of xs\n"
           "{ sorted = list.sort l, evens = list.filter (\\x -> x == 2) l, sum = foldl (\\a b -> a + b) 0 l, twice = array.append xs xs, len = array.len xs }\n") % arr_lit(xs)
    r = c["r"]
    want = "{0|%s,%s,%d,[%s],%d}" % (lst([str(x) for x in r["sorted"]]), lst([str(x) for x in r["evens"]]), r["sum"], ",".join(str(x) for x in r["twice"]), r["len"])
    return src, want


def str_prog(c):
    s = "".join(CPS[x] for x in c["xs"])
    nbytes = c["r"]["bytes"]
    src = ("let string = import! std.string\nlet boolcode b = if b then 1 else 0\nlet s = \"%s\"\n"
           "{ bytes = string.len s, bounds = [%s], whole = string.len (string.slice s 0 %d), eq = boolcode (string.slice s 0 %d == s) }\n") % (
        s, ", ".join("boolcode (string.is_char_boundary s %d)" % i for i in range(nbytes + 1)), nbytes, nbytes)
    b = set(c["r"]["boundaries"])
    want = "{0|%d,[%s],%d,1}" % (nbytes, ",".join("1" if i in b else "0" for i in range(nbytes + 1)), nbytes)
    return src, want


def derive_progs(rnd, n):
    """random values of a derived algebraic type: structural equality and a faithful rendering"""
    def val(d):
        k = rnd.randrange(3 if d > 0 else 2)
        if k == 0:
            return ("A", rnd.randrange(3))
        if k == 1:
            return ("C",)
        return ("B", val(d - 1), val(d - 1))
    def glu(v):
        if v[0] == "A":
            return "(A %d)" % v[1]
        if v[0] == "C":
            return "C"
        return "(B %s %s)" % (glu(v[1]), glu(v[2]))
    def show(v, top=True):
        if v[0] == "A":
            s = "A %d" % v[1]
        elif v[0] == "C":
            return "C"
        else:
            s = "B %s %s" % (show(v[1], False), show(v[2], False))
        return s if top else "(%s)" % s
    out = []
    for _ in range(n):
        a, b = val(2), val(2)
        src = ("#[derive(Eq, Show)]\ntype T = | A Int | B T T | C\nlet { show } = import! std.show\nlet boolcode b = if b then 1 else 0\n"
               "let a = %s\nlet b = %s\n{ same = boolcode (a == a), eq = boolcode (a == b), text = show a }\n") % (glu(a), glu(b))
        want = "{0|1,%d,%s}" % (1 if a == b else 0, json.dumps(show(a), ensure_ascii=False))
        out.append((src, want, "derive"))
    return out


def json_progs(rnd, n):
    out = []
    for _ in range(n):
        x, y, z = rnd.randrange(-5, 100), rnd.choice(["", "a", "é€", "q\\\"uote"]), rnd.randrange(3)
        src = ("let { Serialize, ? } = import! std.json.ser\nlet ser = import! std.json.ser\nlet { Deserialize, ? } = import! std.json.de\nlet de = import! std.json.de\n"
               "let { Result } = import! std.result\n#[derive(Eq, Show, Serialize, Deserialize)]\ntype R = { name : Int, age : String, zs : Array Int, b : Int }\n"
               "let boolcode b = if b then 1 else 0\nlet v : R = { name = %d, age = \"%s\", zs = %s, b = 7 }\n"
               "let text =\n    match ser.to_string v with\n    | Ok s -> s\n    | Err e -> e\n"
               "let back : Result String R = de.deserialize text\n"
               "match back with\n| Ok w -> boolcode (w == v)\n| Err _ -> 2\n") % (x, y, arr_lit(list(range(z))))
        out.append((src, "1", "json"))
    return out


def run(tier):
    t0 = time.time()
    seed = vlib.seed()
    rnd = random.Random(seed)
    vlib.build_harness()
    V = vlib.Verdicts(PID)
    n = 3 if tier == "quick" else 4
    progs, rs = [], []
    for part, fn, size in (("map", map_prog, n + 1 if tier == "quick" else n + 1), ("seq", seq_prog, n + 1), ("str", str_prog, n)):
        cs, r = cases(part, size, "_c19_" + part)
        rs.append(r)
        if tier == "quick" and len(cs) > 1500:
            cs = rnd.sample(cs, 1500)
        for c in cs:
            src, want = fn(c)
            progs.append((src, want, part))
        if part == "map":
            seen_final = set()
            for c in cs:
                ins = tuple((o["k"], o["v"]) for o in c["ops"] if o["op"] == "insert")
                if ins and ins not in seen_final:
                    seen_final.add(ins)
                    src, want = jmap_prog(c)
                    progs.append((src, want, "jsonmap"))
    progs += derive_progs(rnd, 60 if tier == "quick" else 2000)
    progs += json_progs(rnd, 25 if tier == "quick" else 500)
    vlib.log("[C19] %d cases" % len(progs))
    res = vlib.run_pool(["lang"], [{"id": i, "src": p[0]} for i, p in enumerate(progs)], workers=14, job_timeout=60)
    ok = 0
    parts = {}
    for i, (src, want, part) in enumerate(progs):
        r = res.get(i)
        if r is None:
            continue
        parts[part] = parts.get(part, 0) + 1
        rep = {"src": src, "expected": want, "observed": {k: r.get(k) for k in ("status", "value", "msg")}}
        if r["status"] in ("panic", "crash", "hang"):
            V.violation("%s:%s" % (part, r["status"]), "the library %s on\n%s" % (r["status"], src), rep)
        elif r["status"] != "ok":
            V.violation("%s:error:%s" % (part, r.get("class")), "the case fails: %s\n%s" % (r["msg"][:300], src), rep)
        elif part == "derive" and r["value"].replace("(", "").replace(")", "") == want.replace("(", "").replace(")", ""):
            ok += 1          # the derived Show parenthesises every argument; the constructors and literals are the same, in order
        elif r["value"] != want:
            V.violation("%s:wrong-result" % part, "model: %s\nstd  : %s\n%s" % (want, r["value"], src), rep)
        else:
            ok += 1
    rc = V.finish()
    vlib.write_evidence(PID, tier, "exploration", {
        "evaluations": len(res), "distinct_nontrivial": len(progs), "agree": ok, "cases_per_family": parts,
        "model_states": sum(r.distinct for r in rs),
        "rule": "all insert/find sequences of up to %d operations over 3 keys and 2 values, all sequences over {1,2,3} up to length %d, all strings of up to %d code points over a 4-character alphabet with UTF-8 lengths 1-4 (TLC, StdModels.tla; sampled above 1500 per family in the quick tier), seeded random values of a derived algebraic type and of a JSON-serialisable record" % (n + 1, n + 1, n),
        "samples": [progs[0][0], progs[-1][0]], "known_findings_hit": {k: v[1] for k, v in V.known_hits.items()},
    }, ["expected results come from the TLA+ definitions (SequencesExt / Folds for sequences); value renderings are compared"], time.time() - t0, len(V.violations))
    return rc


def replay(path):
    d = json.load(open(path))["replay"]
    r = vlib.run_pool(["lang"], [{"id": 0, "src": d["src"]}], workers=1, job_timeout=60)[0]
    print(d["src"]); print("expected:", d["expected"]); print("observed:", r["status"], r["value"], r["msg"][:300])
    if r["status"] != "ok" or r["value"] != d["expected"]:
        print("VIOLATION property=%s replay=%s" % (PID, path)); return 1
    return 0

"""Shared part of C05 (GC transparency / no reachable value freed) and C13 (heap isolation): Heap.tla is
model-checked in route-focused configurations, TLC walks are replayed on real VMs (gvh heap) and the real object
graph is compared with the model after every step."""
import json, os, time
import vlib

ROUTES_QUICK = {"MC_Heap_cell": 7, "MC_Heap_chan": 7, "MC_Heap_move": 8, "MC_Heap_stack": 8}
ROUTES_THOROUGH = {"MC_Heap_cell": 9, "MC_Heap_chan": 9, "MC_Heap_move": 10, "MC_Heap_stack": 11}
MUTANTS = {"MC_Heap_mut_nofull": "Isolation", "MC_Heap_mut_norooted": "NoDangling", "MC_Heap_mut_cellnoclone": "Isolation",
           "MC_Heap_spawnon": "Isolation", "MC_Heap_mut_sweepgap": "NoDangling"}

# which replay violation classes belong to which property
C05_KEYS = ("dangling", "walk-dangling", "not-reclaimed", "stack-length", "identity")
C13_KEYS = ("owner", "sharing-lost", "sharing-extra", "walk-isolation", "cell-owner", "expected-error", "queue-length",
            "send-result", "shape")


def cfg_with_steps(cfg, steps, name):
    src = open(os.path.join(vlib.SPEC, cfg + ".cfg")).read()
    import re
    src = re.sub(r"MaxSteps = \d+", "MaxSteps = %d" % steps, src)
    path = os.path.join(vlib.SPEC, name + ".cfg")
    open(path, "w").write(src)
    return name


def model_check(tier, props):
    """runs the route configurations; returns (states, transitions, per-config info, violations)"""
    routes = ROUTES_QUICK if tier == "quick" else ROUTES_THOROUGH
    total_s = total_t = 0
    info = {}
    viol = []
    for cfg, steps in routes.items():
        name = cfg_with_steps(cfg, steps, "_run_%d_%s" % (os.getpid(), cfg))
        r = vlib.run_tlc("Heap", name, workers=14, timeout=2400 if tier == "thorough" else 900, xmx="24g")
        os.remove(os.path.join(vlib.SPEC, name + ".cfg"))
        if r.timed_out:
            info[cfg] = {"steps": steps, "timed_out": True, "distinct": r.distinct}
            vlib.log("[heap] %s timed out after %d distinct states (counted as explored prefix)" % (cfg, r.distinct))
        else:
            info[cfg] = {"steps": steps, "distinct": r.distinct, "generated": r.generated, "depth": r.depth, "wall_s": round(r.wall, 1)}
        total_s += r.distinct
        total_t += r.generated
        if r.violation:
            viol.append((cfg, r.violation, r.trace))
        vlib.log("[heap] %s steps<=%d: %d distinct states, %d generated, %.0fs %s" % (cfg, steps, r.distinct, r.generated, r.wall, r.violation or ""))
    return total_s, total_t, info, viol


def mutants_rejected():
    res = {}
    for cfg, inv in MUTANTS.items():
        r = vlib.run_tlc("Heap", cfg, workers=8, timeout=600)
        res[cfg] = r.violation
    return res


def walks(tier, seed):
    out = []
    n = 150 if tier == "quick" else 4000      # per TLC worker (8 workers)
    r = vlib.run_tlc("Heap", "Sim_Heap", workers=8, simulate=n, depth=15, seed_=seed, timeout=1800, print_prefix='"WALK"', xss="256m")
    for line in r.prints:
        h = vlib.tlc_value_to_json(line)
        if h:
            out.append(h)
    if r.violation:
        raise vlib.ToolError("Sim_Heap: model invariant %s violated during simulation" % r.violation)
    if tier == "thorough":
        r = vlib.run_tlc("Heap", "Sim_Heap_Long", workers=8, simulate=800, depth=31, seed_=seed + 7, timeout=2400, print_prefix='"WALK"', xss="256m")
        for line in r.prints:
            h = vlib.tlc_value_to_json(line)
            if h:
                out.append(h)
    return out


TRAPS = ["Trap_Heap_deep3", "Trap_Heap_deep", "Trap_Heap_cell", "Trap_Heap_chan", "Trap_Heap_vm"]


def trap_walks(tier, seed):
    """shortest walks into the scenario traps of Heap.tla (TLC breadth-first search, one walk per trapped state)"""
    out = {}
    import random
    rnd = random.Random(seed)
    for cfg in TRAPS:
        r = vlib.run_tlc("Heap", cfg, workers=12, timeout=900, print_prefix='"WALK"', xss="256m")
        ws = [h for h in (vlib.tlc_value_to_json(l) for l in r.prints) if h]
        cap = 400 if tier == "quick" else 5000
        if len(ws) > cap:
            ws = rnd.sample(ws, cap)
        out[cfg] = ws
    return out


def route_class(walk):
    """(routes used, tree shape, whether a copy was made): the coverage classes of a walk"""
    cls = set()
    for s in walk:
        if s["op"] in ("move", "cellset", "send") and s["res"] > 0:
            src = s["b"]
            copied = s["res"] != src
            t = s["t"]
            par = s["parent"]
            cls.add((s["op"], "copy" if copied else "share", tuple(par[:s["nthr"]])))
    return cls


def value_features(walk, step):
    """features of the value handled by step `step` (computed on the model state before it): cell-cycle if a
    reference cell reachable from the value can reach itself"""
    st = walk[step]
    if step == 0 or st["op"] not in ("move", "cellset", "send"):
        return "-"
    objs = walk[step - 1]["obj"]
    v = st["b"]
    def succ(o):
        return [x for x in objs[o - 1]["f"] if x > 0]
    seen, todo = set(), [v] if v > 0 else []
    while todo:
        o = todo.pop()
        if o in seen:
            continue
        seen.add(o)
        todo += succ(o)
    for c in seen:
        if objs[c - 1]["kind"] != "cell":
            continue
        s2, todo = set(), succ(c)
        while todo:
            o = todo.pop()
            if o == c:
                return "cell-cycle"
            if o in s2:
                continue
            s2.add(o)
            todo += succ(o)
    return "acyclic"


CYCLE_SAMPLES = 12


def replay(walk_list, stress=0, epilogue=False):
    seen = set()
    jobs = []
    kept_cycles = 0
    for w in walk_list:
        # a step that copies a value with a cycle through a cell never returns (recorded finding of C13): a few such
        # walks are replayed as they are, the others are cut before that step so that the rest of the walk is still
        # compared and the run does not spend its time waiting for known hangs
        cyc = next((i for i in range(len(w)) if w[i]["op"] in ("move", "cellset", "send") and value_features(w, i) == "cell-cycle"), None)
        if cyc is not None:
            if kept_cycles < CYCLE_SAMPLES:
                kept_cycles += 1
            elif cyc == 0:
                continue
            else:
                w = w[:cyc]
        k = json.dumps([[s["op"], s["t"], s["a"], s["b"], s["res"]] for s in w])
        if k in seen:
            continue
        seen.add(k)
        jobs.append({"id": len(jobs), "walk": w, "max_thr": 4, "stress": stress, "epilogue": epilogue})
    res = vlib.run_pool(["heap"], jobs, workers=14, job_timeout=6, retry_hangs=False)
    # a walk that did not answer in time is repeated with a generous limit before it counts as a hang - except where the
    # step copies a value with a cycle through a cell, which never terminates (recorded finding of C13)
    slow = []
    for j in jobs:
        r = res.get(j["id"], {})
        if r.get("status") == "hang":
            step = r["log"][-1][0] if r.get("log") else 0
            step = max(0, min(step, len(j["walk"]) - 1))
            if value_features(j["walk"], step) != "cell-cycle":
                slow.append(j)
    if slow:
        again = vlib.run_pool(["heap"], slow, workers=4, job_timeout=60, retry_hangs=False)
        for j in slow:
            if again.get(j["id"], {}).get("status") not in (None, "hang"):
                res[j["id"]] = again[j["id"]]
    return jobs, res


def run_common(pid, tier, mine, level_text_extra=""):
    t0 = time.time()
    seed = vlib.seed()
    vlib.build_harness()
    V = vlib.Verdicts(pid)
    states, trans, info, mviol = model_check(tier, None)
    for cfg, inv, trace in mviol:
        V.violation("model:%s:%s" % (cfg, inv), "Heap.tla (%s) violates %s\n%s" % (cfg, inv, "\n".join(trace[-2:])[:3000]), {"cfg": cfg, "trace": trace})
    t1 = time.time()
    mut = mutants_rejected()
    vlib.log("[heap] model checking %.0fs, mutants %.0fs" % (t1 - t0, time.time() - t1))
    ws = walks(tier, seed)
    jobs, res = replay(ws, stress=0)
    # a second pass of a part of the walks with a collection forced at every allocation check
    jobs2, res2 = replay(ws[: max(200, len(ws) // 4)], stress=1)
    tw = trap_walks(tier, seed)
    jobs3, res3 = replay([w for ws_ in tw.values() for w in ws_], stress=0, epilogue=True)
    vlib.log("[heap] %d walks generated, %d + %d replayed, %d trap walks (%s), total %.0fs" % (len(ws), len(jobs), len(jobs2), len(jobs3), {k: len(v) for k, v in tw.items()}, time.time() - t0))
    classes = set()
    nontrivial = 0
    replayed = 0
    for js, rs, tag in ((jobs, res, ""), (jobs2, res2, "stress1:"), (jobs3, res3, "trap:")):
        for j in js:
            r = rs.get(j["id"])
            if r is None:
                continue
            replayed += 1
            cl = route_class(j["walk"])
            if cl:
                nontrivial += 1
            classes |= cl
            if r["status"] in ("hang", "crash"):
                step = r["log"][-1][0] if r.get("log") else 0
                step = max(0, min(step, len(j["walk"]) - 1))
                st = j["walk"][step]
                feat = value_features(j["walk"], step)
                if feat == "cell-cycle" and pid != "C13":
                    V.divergence("%s:%s:%s (C13 finding)" % (st["op"], r["status"], feat))
                    continue
                # a second VM was dropped earlier in the walk after values had crossed between the VMs: what happens
                # afterwards is keyed by that history, not by the step at which the damage shows
                dropped = any(s2["op"] == "dropvm" for s2 in j["walk"][:step])
                crossed = any(s2["op"] == "move" and s2["res"] > 0 for s2 in j["walk"][:step])
                if r["status"] == "crash" and dropped and crossed and feat != "cell-cycle":
                    V.violation("crash-after-dropvm", "replay of a Heap.tla walk: crash at step %d (%s), after values had moved between two VMs and one of them was dropped\n%s" % (step, [st["op"], st["t"], st["a"], st["b"], st["res"]], r.get("msg", "")[-600:]), {"walk": j["walk"], "stress": j["stress"], "step": step})
                    continue
                V.violation("%s%s:%s:%s" % (tag, st["op"], r["status"], feat), "replay of a Heap.tla walk: %s at step %d (%s)\n%s" % (r["status"], step, [st["op"], st["t"], st["a"], st["b"], st["res"]], r.get("msg", "")[-600:]), {"walk": j["walk"], "stress": j["stress"], "step": step})
                continue
            if r["status"] != "ok":
                V.violation(tag + "crash:" + r["status"][:60], "replay of a Heap.tla walk ended with %s\n%s" % (r["status"], r.get("msg", "")[:600]), {"walk": j["walk"], "stress": j["stress"]})
                continue
            for key, text, step in r.get("violations", []):
                kcls = key.split(":")[1] if ":" in key else key
                if key.startswith("epilogue-collect:"):
                    kcls = key.split(":", 1)[1]
                relevant = kcls.startswith(mine) or not (kcls.startswith(C05_KEYS) or kcls.startswith(C13_KEYS))
                if relevant:
                    V.violation(tag + key, "%s (step %d of the walk)" % (text, step), {"walk": j["walk"], "stress": j["stress"], "step": step})
                else:
                    V.divergence(key)
    # Collect is one atomic step for the whole subtree (Heap.tla; the mutant "sweepgap" shows what happens otherwise):
    # on the VM, the root collects in a loop while its children compute on their own OS threads
    pc_rounds = 0
    if pid == "C05":
        import random
        rnd = random.Random(seed)
        PC_PROG = ("let list @ { List } = import! std.list\nlet array = import! std.array.prim\n"
                   "rec let build n acc = if n == 0 then acc else build (n - 1) (Cons (n + array.len [n]) acc)\n"
                   "rec let sum l acc =\n    match l with\n    | Cons x r -> sum r (acc + x)\n    | Nil -> acc\n"
                   "rec let go k acc = if k == 0 then acc else go (k - 1) (acc + sum (build %d Nil) 0)\ngo %d 0\n")
        pj = []
        for k in range(6 if tier == "quick" else 60):
            n, reps = rnd.choice([(300, 100), (50, 400), (1000, 30)])
            prog = PC_PROG % (n, reps)
            pj.append({"id": k, "modules": [], "threads": [[prog]] * rnd.choice([2, 3, 4]), "parent_collects": True, "warmup": [prog], "expect": str(reps * (n * (n + 1) // 2 + n))})
        pr = vlib.run_pool(["par"], [{k: v for k, v in j.items() if k != "expect"} for j in pj], workers=3, job_timeout=180)
        for j in pj:
            r = pr.get(j["id"])
            if r is None:
                continue
            pc_rounds += 1
            rep_ = {"par_job": {k: v for k, v in j.items() if k != "expect"}, "expect": j["expect"]}
            if r.get("status") in ("hang", "crash"):
                again = [vlib.run_pool(["par"], [{k: v for k, v in j.items() if k != "expect"}], workers=1, job_timeout=180).get(j["id"], {}).get("status") for _ in range(2)]
                if r["status"] in again:
                    V.violation("parent-collects:%s" % r["status"], "the root collects while %d children run on their own OS threads: %s (reproduced) %s" % (len(j["threads"]), r["status"], r.get("msg", "")[-300:]), rep_)
                continue
            if r.get("dangling"):
                V.violation("parent-collects:dangling", "%d freed objects reachable after the round" % r["dangling"], rep_)
            for rs in r["results"]:
                o = rs[0] if isinstance(rs, list) else {"status": rs, "value": ""}
                if (o["status"], o["value"]) != ("ok", j["expect"]):
                    V.violation("parent-collects:wrong-result", "a child computing while the root collects gave %s %s, expected %s" % (o["status"], o["value"], j["expect"]), rep_)
    rc = V.finish()
    samples = [[[s["op"], s["t"], s["a"], s["b"], s["res"]] for s in j["walk"]] for j in jobs[:2]]
    vlib.write_evidence(pid, tier, "model_checking", {
        "states": states, "transitions": trans,
        "traces_validated_against_impl": replayed,
        "samples": samples,
        "evaluations": replayed, "distinct_nontrivial": len(classes),
        "rule": "TLC -simulate walks of Heap.tla (14 steps, 6 objects, 4 threads, 2 VMs%s) replayed on real VMs, each also under collect-at-every-allocation for a quarter of them; distinct_nontrivial counts distinct (transfer route, copy-or-share, thread tree shape) classes in which a value crossed heaps" % ("; 30 steps / 8 objects in the long runs" if tier == "thorough" else ""),
        "parent_collects_rounds": pc_rounds,
        "walks_with_transfer": nontrivial, "trap_walks": {k: len(v) for k, v in tw.items()},
        "model_configs": info,
        "spec_mutants_rejected_by": mut,
        "exhaustive": False,
        "known_findings_hit": {k: v[1] for k, v in V.known_hits.items()},
        "other_property_divergences": V.divergences[:20],
    }, ["object graph projection through ValueRef + read-only hook accessors (cells, queues), heap ids and freed flags from the GC header hooks",
        "freed blocks are quarantined and poisoned (hook), so addresses are never reused during a replay",
        "marks on foreign objects are not modelled (Heap.tla treats the mark set as local to a collection)"], time.time() - t0, len(V.violations))
    return rc


def replay_file(pid, path):
    d = json.load(open(path))["replay"]
    if "par_job" in d:
        r = vlib.run_pool(["par"], [d["par_job"]], workers=1, job_timeout=180).get(d["par_job"]["id"], {})
        print(json.dumps(r)[:1500])
        bad = r.get("status") != "ok" or r.get("dangling") or any((rs[0]["status"], rs[0]["value"]) != ("ok", d["expect"]) for rs in r.get("results", []))
        if bad:
            print("VIOLATION property=%s replay=%s" % (pid, path))
            return 1
        return 0
    if "walk" not in d:
        print("model-level violation; see the trace in the replay file")
        print("VIOLATION property=%s replay=%s" % (pid, path))
        return 1
    res = vlib.run_pool(["heap"], [{"id": 0, "walk": d["walk"], "max_thr": 4, "stress": d.get("stress", 0), "epilogue": True}], workers=1, job_timeout=60)
    r = res[0]
    print(json.dumps(r, indent=1)[:3000])
    if r["status"] != "ok" or r.get("violations"):
        print("VIOLATION property=%s replay=%s" % (pid, path))
        return 1
    return 0

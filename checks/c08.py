"""C08: parsing follows the documented grammar, layout and fixity rules.
(1) Infix.tla: the shift/reduce machine of parser/src/infix.rs equals the declarative grouping for every operator chain
    (TLC, exhaustive); every chain is replayed through the real parser + reparse with operators declared by #[infix]
    and with the built-in table, comparing the grouping or the conflicting-fixities error.
(2) Round trip: Lang.tla programs printed in several concrete styles (canonical, redundant parentheses with block
    comments, trailing line comments with blank lines) must parse to the same tree; spans of literals and identifiers
    must delimit their text."""
import json, os, random, re, time
import vlib, langlib, astlib

PID = "C08"
NAMES = ["<+", "+>", "<*", "*>", "<^", "^>", "<%", "%>"]
TABLE = [(5, "L"), (5, "R"), (6, "L"), (6, "R"), (7, "L"), (7, "R"), (5, "L"), (7, "R")]
BUILTIN = [("#Int+", 6), ("#Int-", 6), ("#Int*", 7), ("#Int/", 7)]
PRIMES = [2, 3, 5, 7, 11, 13, 17]


def header():
    lines = ["let s = import! std.string.prim"]
    for i, (nm, (p, a)) in enumerate(zip(NAMES, TABLE)):
        lines.append("#[infix(%s, %d)]" % ("left" if a == "L" else "right", p))
        lines.append("let (%s) l r = s.append \"(\" (s.append l (s.append \"%d\" (s.append r \")\")))" % (nm, i + 1))
    return "\n".join(lines) + "\n"


def show(tree, chain):
    if tree[0] == "a":
        return "abcdefgh"[tree[1] - 1]
    return "(" + show(tree[2], chain) + str(chain[tree[1] - 1]) + show(tree[3], chain) + ")"


def eval_tree(tree, chain):
    if tree[0] == "a":
        return PRIMES[tree[1] - 1]
    l, r = eval_tree(tree[2], chain), eval_tree(tree[3], chain)
    if l is None or r is None:
        return None
    op = BUILTIN[chain[tree[1] - 1] - 1][0]
    if op == "#Int+":
        return l + r
    if op == "#Int-":
        return l - r
    if op == "#Int*":
        return l * r
    if r == 0:
        return None
    q = abs(l) // abs(r)
    return q if (l < 0) == (r < 0) else -q


def tlc_chains(table_mod, maxops, name):
    cfg = "SPECIFICATION Spec\nCONSTANTS\n  Table <- MCTable\n  MaxOps = %d\n  Emit = TRUE\nINVARIANTS MachineEqualsGroup EmitChain\nCHECK_DEADLOCK FALSE\n" % maxops
    open(os.path.join(vlib.SPEC, name + ".cfg"), "w").write(cfg)
    r = vlib.run_tlc(table_mod, name, workers=8, timeout=1800, print_prefix='"CHAIN"')
    os.remove(os.path.join(vlib.SPEC, name + ".cfg"))
    if r.violation:
        return None, r
    return [c for c in (vlib.tlc_value_to_json(l) for l in r.prints) if c], r


def styles(src):
    body_start = len(langlib.PREAMBLE)
    pre, body = src[:body_start], src[body_start:]
    b = body.replace("(", "(/* c */ (").replace(")", "))")
    c = "\n\n".join(l + " // c" for l in body.rstrip("\n").split("\n")) + "\n"
    return {"parens+block-comments": pre + b, "line-comments+blank-lines": pre + c}


def run(tier):
    t0 = time.time()
    seed = vlib.seed()
    rnd = random.Random(seed)
    vlib.build_harness()
    V = vlib.Verdicts(PID)
    # ---- infix
    maxops = 4 if tier == "quick" else 6
    chains, r1 = tlc_chains("MC_Infix", maxops, "_c08a")
    if chains is None:
        V.violation("model:MachineEqualsGroup", "Infix.tla: the machine and the declarative grouping differ\n%s" % "\n".join(r1.trace[-2:]), {"trace": r1.trace})
        chains = []
    open(os.path.join(vlib.SPEC, "MC_InfixBuiltin.tla"), "w").write(
        "---- MODULE MC_InfixBuiltin ----\nEXTENDS Infix\nMCTable == << %s >>\n====\n" % ", ".join('[prec |-> %d, assoc |-> "L"]' % p for _, p in BUILTIN))
    bchains, r2 = tlc_chains("MC_InfixBuiltin", 5 if tier == "quick" else 6, "_c08b")
    os.remove(os.path.join(vlib.SPEC, "MC_InfixBuiltin.tla"))
    bchains = bchains or []
    hdr = header()
    jobs, meta = [], {}
    for c in chains:
        ch = c["c"]
        expr = " ".join(['"%s" %s' % ("abcdefgh"[i], NAMES[o - 1]) for i, o in enumerate(ch)] + ['"%s"' % "abcdefgh"[len(ch)]])
        jobs.append({"id": len(jobs), "src": hdr + expr + "\n", "prelude": False})
        meta[len(jobs) - 1] = ("declared", c)
    for c in bchains:
        ch = c["c"]
        expr = " ".join(["%d %s" % (PRIMES[i], BUILTIN[o - 1][0]) for i, o in enumerate(ch)] + [str(PRIMES[len(ch)])])
        jobs.append({"id": len(jobs), "src": expr + "\n", "prelude": False})
        meta[len(jobs) - 1] = ("builtin", c)
    vlib.log("[C08] %d chains over the declared table, %d over the built-in table" % (len(chains), len(bchains)))
    res = vlib.run_pool(["lang"], jobs, workers=14, job_timeout=30)
    chain_ok = 0
    for j in jobs:
        r = res.get(j["id"])
        if r is None:
            continue
        kind, c = meta[j["id"]]
        g = c["g"]
        rep = {"src": j["src"], "chain": c["c"], "group": g, "observed": {k: r.get(k) for k in ("status", "value", "msg")}}
        sig = "".join("%s%d" % (TABLE[o - 1][1], TABLE[o - 1][0]) for o in c["c"]) if kind == "declared" else "builtin"
        if r["status"] in ("panic", "crash", "hang"):
            V.violation("infix:%s:%s" % (kind, r["status"]), "the parser %s on an operator chain\n%s" % (r["status"], j["src"].splitlines()[-1]), rep)
            continue
        if g == ["conflict"]:
            if r["status"] == "ok":
                V.violation("infix:conflict-not-reported:%s" % sig, "operators of one precedence level with conflicting associativity must be reported, the chain evaluated to %s\n%s" % (r["value"], j["src"].splitlines()[-1]), rep)
            elif "onflicting fixities" not in r["msg"]:
                V.violation("infix:conflict-wrong-error", "expected a conflicting fixities error: %s" % r["msg"][:200], rep)
            else:
                chain_ok += 1
            continue
        if kind == "declared":
            want = json.dumps(show(g, c["c"]))
        else:
            v = eval_tree(g, c["c"])
            if v is None:
                continue
            want = str(v)
        if r["status"] != "ok":
            if kind == "builtin" and r.get("class") == "arith":
                continue
            V.violation("infix:%s:rejected:%s" % (kind, sig), "a conflict-free chain is rejected: %s\n%s" % (r["msg"][:200], j["src"].splitlines()[-1]), rep)
        elif r["value"] != want:
            V.violation("infix:%s:wrong-grouping:%s" % (kind, sig), "grouping %s expected, the parser produced %s\n%s" % (want, r["value"], j["src"].splitlines()[-1]), rep)
        else:
            chain_ok += 1
    # ---- round trip over styles
    progs, r3 = langlib.corpus("c08rt", 4 if tier == "quick" else 5, langlib.ALL_PRODS, roots=("I", "R", "O", "F1"), rng_seed=seed, sample=1500 if tier == "quick" else 20000)
    pj, pmeta = [], {}
    for o in progs:
        a = langlib.render(o["p"])
        variants = {"canonical": a}
        variants.update(styles(a))
        # the indentation-only (offside) layout: no `in`, no parentheses around the spine, bodies indented
        blk = langlib.render_block(o["p"])
        variants["block-layout"] = blk
        pre, body = blk[:len(langlib.PREAMBLE)], blk[len(langlib.PREAMBLE):]
        variants["block-layout+comments"] = pre + "\n\n".join(l + " // c" for l in body.rstrip("\n").split("\n")) + "\n"
        for st, src in variants.items():
            pj.append({"id": len(pj), "src": src, "mode": "parse"})
            pmeta[len(pj) - 1] = (o, st)
    pres = vlib.run_pool(["lang"], pj, workers=14, job_timeout=30)
    trees = {}
    rt_ok = 0
    for j in pj:
        r = pres.get(j["id"])
        if r is None:
            continue
        o, st = pmeta[j["id"]]
        key = langlib.key_of(o["p"])
        rep = {"src": j["src"], "style": st, "p": o["p"]}
        if r["status"] != "ok":
            V.violation("roundtrip:%s:%s" % (st, "parse-error" if r["status"] == "err" else r["status"]), "a program printed in the `%s` style does not parse: %s\n%s" % (st, r["msg"][:300], j["src"]), rep)
            continue
        try:
            t = astlib.parse_debug(r["value"])
        except Exception as e:
            raise vlib.ToolError("cannot parse the AST dump: %s" % e)
        probs = []
        n = astlib.normalise(t, j["src"], probs)
        for pmsg in probs[:1]:
            V.violation("span:%s" % st, "%s\n%s" % (pmsg, j["src"]), rep)
        if st == "canonical":
            trees[key] = n
        elif key in trees:
            if n != trees[key]:
                V.violation("roundtrip:%s:different-tree" % st, "the `%s` style parses to a different tree than the canonical text\n%s" % (st, j["src"]), rep)
            else:
                rt_ok += 1
    rc = V.finish()
    vlib.write_evidence(PID, tier, "model_checking", {
        "states": r1.distinct + r2.distinct + r3.distinct, "transitions": r1.generated + r2.generated + r3.generated,
        "traces_validated_against_impl": len(res) + len(pres),
        "samples": [jobs[-1]["src"].splitlines()[-1], jobs[len(chains) // 2]["src"].splitlines()[-1]],
        "evaluations": len(res) + len(pres), "distinct_nontrivial": len([c for c in chains if len(c["c"]) >= 2]),
        "chains_declared_table": len(chains), "chains_builtin_table": len(bchains), "chains_agree": chain_ok,
        "roundtrip_programs": len(progs), "roundtrip_style_variants_equal": rt_ok, "exhaustive": True,
        "rule": "all operator chains with up to %d operators over a table with two operators for every (precedence level in {5,6,7}, associativity) and all chains over the built-in primitive operators, enumerated by TLC together with their declarative grouping; Lang.tla programs in five concrete styles (canonical, redundant parentheses + block comments, line comments + blank lines, block layout, block layout + comments); non-trivial = chains with at least two operators" % maxops,
        "known_findings_hit": {k: v[1] for k, v in V.known_hits.items()},
    }, ["grouping is observed through evaluation (operators that build a string showing the tree / integer results with distinct prime operands)",
        "the indentation-only (offside) layout is exercised by the block-layout styles (spine of bindings / conditionals / matches / lambdas / recursive functions without `in` and parentheses) and by the repository files used for C10; layout.rs itself is not transcribed into TLA+"],
        time.time() - t0, len(V.violations))
    return rc


def replay(path):
    d = json.load(open(path))["replay"]
    mode = "parse" if "style" in d else "run"
    r = vlib.run_pool(["lang"], [{"id": 0, "src": d["src"], "prelude": False, "mode": mode}], workers=1, job_timeout=30)[0]
    print(d["src"]); print(json.dumps({k: r.get(k) for k in ("status", "value", "msg")})[:600])
    print("VIOLATION property=%s replay=%s" % (PID, path))
    return 1

"""C02: type soundness - programs the checker accepts never go wrong, under every compiler setting and across imports.
Programs: the well-typed Lang.tla corpus, its Retype mutants (Lang.tla PRetype: a hole silently changes its type; the
checker decides), and multi-module programs (an imported module per program, plain and IO-typed).  Oracle: if the
checker accepts, compile+run must not produce an internal compiler error, a VM shape complaint or a host panic, and the
returned value must have the shape of the reported type."""
import json, random, time, itertools
import vlib, langlib, wlib

PID = "C02"
FLAGS = ["prelude", "optimize", "debug", "run_io", "full_metadata"]
ICE = ["ICE", "Please report", "Cannot call", "GetOffset on", "GetField on", "Op TestTag", "Op Split", "internal compiler error",
       "Stack push out of bounds", "Expected record as last expression", "is not a function", "Attempted to pop"]


def covering(tier):
    allc = [dict(zip(FLAGS, bits)) for bits in itertools.product([True, False], repeat=5)]
    if tier == "thorough":
        return allc
    # pairwise covering array of the five flags (8 rows)
    rows = ["TTTTT", "TFFFF", "FTFTF", "FFTFT", "TTFFT", "TFTTF", "FTTFF", "FFFTT"]
    return [dict(zip(FLAGS, [c == "T" for c in r])) for r in rows]


def setting_key(s):
    return "".join("1" if s[f] else "0" for f in FLAGS)


def classify(r):
    """'rejected' (checker / parser said no), 'value', 'runtime-error', or a violation key"""
    if r["status"] in ("panic", "crash", "hang"):
        return "bad", "%s:%s" % (r["status"], r.get("panic_at") or r["msg"][:70])
    if r["status"] == "ok":
        return "value", None
    m = r["msg"]
    for pat in ICE:
        if pat in m:
            return "bad", "internal-failure:%s" % pat
    if m.startswith("error:") or "error: " in m[:40]:
        return "rejected", None
    return "runtime-error", None


SCENARIOS = [
    ("rec-group-with-value-binding", "rec let f n : Int -> Int = if n == 0 then 0 else f (n - 1)\nlet big = f 3\nbig\n"),
    ("nested-mixed-patterns", "type T = | S Int | N\nlet { eff } = import! host\nmatch { a = S (eff 1), b = (2, N) } with\n"
                              "| { a = S 2, b } -> 0\n| { a = S k, b = (m, S _) } -> 1\n| { a = S k, b = (m, N) } -> k + m\n| _ -> 9\n"),
    ("open-row-after-let-projection", "(((\\v1 -> (let v2 = (v1).x in v1)) { x = 1 })).y\n"),
    ("projection-of-identity-application", "((\\v1 -> v1) { x = 1 }).x\n"),
    # a let-bound function whose body uses an implicit argument with exactly one instance in scope: the instance must
    # not fix the function's parameter type behind the back of generalisation
    ("implicit-unique-instance-other-type", "#[implicit]\ntype Wt a = { wt : a -> Int }\nlet wt ?d : [Wt a] -> a -> Int = d.wt\nlet wt_int : Wt Int = { wt = \\x -> x #Int* 2 }\nlet g x = wt x\ng \"s\"\n"),
    ("implicit-unique-instance-same-type", "#[implicit]\ntype Wt a = { wt : a -> Int }\nlet wt ?d : [Wt a] -> a -> Int = d.wt\nlet wt_int : Wt Int = { wt = \\x -> x #Int* 2 }\nlet g x = wt x\ng 21\n"),
    ("implicit-unique-instance-two-levels", "#[implicit]\ntype Wt a = { wt : a -> Int }\nlet wt ?d : [Wt a] -> a -> Int = d.wt\nlet wt_str : Wt String = { wt = \\x -> 7 }\nlet g x = wt x\nlet h y = g y\nh 1\n"),
    ("rec-group-of-functions", "rec let ev n : Int -> Int = if n == 0 then 1 else od (n - 1)\nlet od n : Int -> Int = if n == 0 then 0 else ev (n - 1)\nev 10\n"),
    ("nested-patterns-total", "type T = | S Int | N\nmatch { a = S 1, b = (2, N) } with\n| { a = S k, b = (m, _) } -> k + m\n| { a = N, b = _ } -> 0\n"),
]


def run(tier):
    t0 = time.time()
    seed = vlib.seed()
    rnd = random.Random(seed)
    vlib.build_harness()
    V = vlib.Verdicts(PID)
    stats, rs = {}, []
    good, r = langlib.corpus("c02good", 4 if tier == "quick" else 5, langlib.ALL_PRODS, roots=("I", "B", "R", "O", "F1"), rng_seed=seed,
                             sample=1200 if tier == "quick" else 20000)
    rs.append(r)
    muts, r = langlib.corpus("c02mut", 4 if tier == "quick" else 5, langlib.ALL_PRODS, roots=("I", "R", "O"), rng_seed=seed, mutations=1,
                             sample=6000 if tier == "quick" else 120000, timeout=3000)
    muts = [m for m in muts if m["k"] == "mutant"]
    rs.append(r)
    stats = {"well_typed": len(good), "mutants": len(muts)}
    # pass 1: which mutants does the checker accept (default settings)?
    res = vlib.run_pool(["lang"], [{"id": i, "src": langlib.render(m["p"])} for i, m in enumerate(muts)], workers=14, job_timeout=20)
    accepted = []
    for i, m in enumerate(muts):
        r = res.get(i)
        if r is None:
            continue
        kind, key = classify(r)
        if kind != "rejected":
            accepted.append(m)
    stats["mutants_accepted_by_checker"] = len(accepted)
    vlib.log("[C02] %d well-typed programs, %d mutants of which the checker accepts %d" % (len(good), len(muts), len(accepted)))
    progs = [("good", o) for o in good] + [("mutant", m) for m in accepted[: (800 if tier == "quick" else 20000)]]
    # annotation-dropping mutation: the same programs with `error` left unannotated
    progs += [("bare", o) for o in good if any(n[0] == "err" for n in o["p"])][: (400 if tier == "quick" else 8000)]
    combos = covering(tier)
    jobs, meta = [], {}
    for kind, o in progs:
        for s in combos:
            src = langlib.render(o["p"], prim=not s["prelude"], bare=(kind == "bare"))
            if s["run_io"] and o["ty"] == "I" and kind == "good":
                pass
            j = dict(s)
            j.update({"id": len(jobs), "src": src})
            meta[j["id"]] = (kind, o, s)
            jobs.append(j)
    # multi-module programs: the program becomes module `modp`; importers use its value (plain, and IO-typed under run_io)
    mm = [o for o in good if o["ty"] == "I" and o["k"] == "val"][: (150 if tier == "quick" else 3000)]
    for o in mm:
        for s in combos:
            prim = not s["prelude"]
            body = langlib.render(o["p"], prim=prim)
            plus = "#Int+" if prim else "+"
            variants = [("plain", [["modp", body]], "let m = import! modp\n(m %s 1)\n" % plus)]
            if s["prelude"]:
                io_mod = "let { wrap } = import! std.applicative\nlet io @ { ? } = import! std.io\nlet act : IO Int = wrap 41\nact\n"
                variants.append(("io-typed", [["iomod", io_mod]], "let { flat_map } = import! std.monad\nlet io @ { ? } = import! std.io\nlet { wrap } = import! std.applicative\nlet m = import! iomod\ndo v = m\nwrap (v + 1)\n"))
            for vname, mods, main in variants:
                j = dict(s)
                j.update({"id": len(jobs), "src": main, "modules": mods, "fresh": True})
                meta[j["id"]] = ("module:" + vname, o, s)
                jobs.append(j)
    # untyped ML-fragment terms (LangW.tla): whatever the checker accepts must run without going wrong
    from checks import c03
    wterms, wr = c03.terms("quick" if tier == "quick" else "thorough", seed)
    rs.append(wr)
    if tier == "quick" and len(wterms) > 12000:
        wterms = rnd.sample(wterms, 12000)
    for t in wterms:
        for s in ({"prelude": False, "optimize": True, "debug": True, "run_io": False, "full_metadata": False},
                  {"prelude": False, "optimize": False, "debug": False, "run_io": False, "full_metadata": True}):
            j = dict(s)
            j.update({"id": len(jobs), "src": wlib.render(t["p"])})
            meta[j["id"]] = ("wterm", {"p": t["p"], "ty": "?", "k": "wterm", "typable": t["ok"]}, s)
            jobs.append(j)
    # hand-written members of program families the generators do not reach yet (each was found by reading the anchors;
    # the generators grow towards them): a value binding inside a `rec` group, deeply nested mixed patterns
    for name, src in SCENARIOS:
        s = {"prelude": True, "optimize": True, "debug": True, "run_io": False, "full_metadata": False}
        j = dict(s)
        j.update({"id": len(jobs), "src": src})
        meta[j["id"]] = ("scenario:" + name, {"p": [], "ty": "?", "k": "scenario"}, s)
        jobs.append(j)
    # the generalisation-sensitive skeleton family of LangW.tla (a let-bound function whose type is tied to a lambda-bound
    # variable must not be generalised): accepted members must run without going wrong
    sk_terms, sr = c03.skeleton_terms(tier, seed)
    rs.append(sr)
    for p_ in sk_terms:
        s = {"prelude": False, "optimize": True, "debug": True, "run_io": False, "full_metadata": False}
        j = dict(s)
        j.update({"id": len(jobs), "src": wlib.render(p_)})
        meta[j["id"]] = ("wterm", {"p": p_, "ty": "?", "k": "wterm", "typable": None}, s)
        jobs.append(j)
    stats["skeleton_family"] = {"members": sr.total, "run": len(sk_terms)}
    vlib.log("[C02] %d runs (%d programs x %d setting combinations + module programs + %d ML-fragment terms)" % (len(jobs), len(progs), len(combos), len(wterms)))
    res = vlib.run_pool(["lang"], jobs, workers=14, job_timeout=30)
    accepted_runs = shape_checked = 0
    for j in jobs:
        r = res.get(j["id"])
        if r is None:
            continue
        kind, o, s = meta[j["id"]]
        c, key = classify(r)
        rep = {"p": o["p"], "src": j["src"], "modules": j.get("modules"), "settings": s, "observed": r}
        sk = setting_key(s)
        if c == "bad" and kind == "wterm" and not o.get("typable") and r["status"] in ("crash", "hang"):
            # the checker itself dies on an untypable term (infinite type): nothing was accepted; this is C09's claim
            V.divergence("checker stack overflow on an untypable term: %s" % j["src"].splitlines()[-1][:100])
            continue
        if c == "bad":
            V.violation("%s:%s" % (kind, key),
                        "accepted program went wrong under settings %s (prelude,optimize,debug,run_io,full_metadata): %s\n%s" % (sk, r["msg"][:300], j["src"]), rep)
            continue
        if c == "rejected":
            if kind == "good" and s["prelude"]:
                # a program which is well-typed by construction must be accepted (that is C03's claim; recorded only)
                V.divergence("well-typed program rejected under %s: %s" % (sk, r["msg"][:120]))
            continue
        accepted_runs += 1
        if c == "value" and not kind.startswith("module"):
            ok = langlib.shape_ok(r["type"], r["value"])
            if ok is not None:
                shape_checked += 1
            if ok is False:
                V.violation("%s:shape-mismatch" % kind, "value %s does not have the shape of the reported type %s (settings %s)\n%s" % (r["value"], r["type"], sk, j["src"]), rep)
        if kind == "good" and c == "value" and o["k"] == "val" and not s["run_io"]:
            # settings must not change the value of a well-typed program (dead-binding findings aside, which C04 owns)
            if r["value"] != langlib.expected(o)[1] and not o.get("nalts"):
                V.violation("good:setting-changes-value:%s" % sk, "model %s, VM %s under settings %s\n%s" % (langlib.expected(o)[1], r["value"], sk, j["src"]), rep)
        if kind == "module:plain" and c == "value" and o["k"] == "val" and not o.get("nalts"):
            want = langlib.BIG * 0 + int(langlib.expected(o)[1]) + 1
            if r["value"] != str(want) and abs(want) < 2 ** 63:
                V.violation("module:plain:wrong-value", "importer of a module with value %s got %s (settings %s)" % (langlib.expected(o)[1], r["value"], sk), rep)
        if kind == "module:io-typed" and c == "value" and s["run_io"]:
            if r["value"] != "42":
                V.violation("module:io-typed:wrong-value", "importer of an IO-typed module got %s instead of 42 (settings %s)" % (r["value"], sk), rep)
    rc = V.finish()
    vlib.write_evidence(PID, tier, "model_checking", {
        "states": sum(r.distinct for r in rs), "transitions": sum(r.generated for r in rs),
        "traces_validated_against_impl": len(res),
        "samples": [{"src": langlib.render(o["p"]), "kind": k} for k, o in (progs[:1] + progs[-2:])],
        "evaluations": len(res), "distinct_nontrivial": len(accepted) + len(good), "accepted_runs": accepted_runs, "shape_checked": shape_checked,
        "setting_combinations": len(combos),
        "rule": "well-typed Lang.tla programs + Retype mutants accepted by the checker + multi-module programs (plain and IO-typed imported module), each under %d combinations of {implicit_prelude, optimize, emit_debug_info, run_io, full_metadata} (%s); distinct_nontrivial = well-typed programs + checker-accepted mutants" % (len(combos), "all 32" if tier == "thorough" else "pairwise covering array"),
        "corpus": stats, "exhaustive": False, "known_findings_hit": {k: v[1] for k, v in V.known_hits.items()},
        "divergences": V.divergences[:10],
    }, ["a run counts as accepted when it does not end in a parse / type error", "value shapes are checked for Int, Bool, Option, records, tuples, arrays, functions and the generated list type; other types are not judged"],
        time.time() - t0, len(V.violations))
    return rc


def replay(path):
    d = json.load(open(path))["replay"]
    j = dict(d["settings"])
    j.update({"id": 0, "src": d["src"], "fresh": True})
    if d.get("modules"):
        j["modules"] = d["modules"]
    r = vlib.run_pool(["lang"], [j], workers=1, job_timeout=30)[0]
    print(d["src"]); print(json.dumps(r)[:800])
    c, key = classify(r)
    if c == "bad":
        print("VIOLATION property=%s replay=%s" % (PID, path))
        return 1
    return 0

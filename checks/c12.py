"""C12: precompiled bytecode behaves like the source it came from.
The Lang.tla corpus (closures, recursive groups, records, variants, arrays, failures, effects) is compiled to
bytecode (serde_json), loaded back in the same VM and in a fresh VM, and run: outcome and effect log must equal the
direct run (and the model).  Fault part: truncations of the serialised form and renamed / deleted references must be
refused with an error - never a crash or a hang."""
import json, random, time
import vlib, langlib

PID = "C12"

# hand-written sources for what the generator does not produce: names and constants that need escaping, floats, chars
EXTRA = [
    "let (/\\) l r = l + r * 2\n1 /\\ 3\n",
    "let f x = { s = \"a\\\"b\\\\c\\n\", t = \"é€日\", x }\nf 1\n",
    "let g x = (x, 1.5, 'a', 2b, [x, x])\ng 3\n",
    "type T a = | Leaf | Node (T a) a (T a)\nrec let depth t =\n    match t with\n    | Leaf -> 0\n    | Node l _ r -> 1 + depth l\ndepth (Node (Node Leaf 1 Leaf) 2 Leaf)\n",
    "rec\nlet even n = if n == 0 then True else odd (n - 1)\nlet odd n = if n == 0 then False else even (n - 1)\n{ e = even 10, o = odd 7 }\n",
    "let string = import! std.string\nlet k = \"key\"\n{ l = string.len k, k }\n",
]


def corruptions(text, rnd, n_trunc, n_edit):
    out = []
    L = len(text)
    # truncations at structural boundaries
    cuts = [i for i, ch in enumerate(text) if ch in ",:{}[]"]
    for c in rnd.sample(cuts, min(n_trunc, len(cuts))):
        out.append(("truncate", text[:c]))
    # references: rename a string (identifiers of globals, modules, fields, types), or drop a key
    try:
        doc = json.loads(text)
    except Exception:
        return out
    paths = []
    def walk(x, path):
        if isinstance(x, dict):
            for k, v in x.items():
                paths.append(("key", path + [k]))
                walk(v, path + [k])
        elif isinstance(x, list):
            for i, v in enumerate(x):
                walk(v, path + [i])
        elif isinstance(x, str) and x:
            paths.append(("str", path))
    walk(doc, [])
    for kind, path in rnd.sample(paths, min(n_edit, len(paths))):
        d2 = json.loads(text)
        cur = d2
        for p in path[:-1]:
            cur = cur[p]
        if kind == "key":
            del cur[path[-1]]
            out.append(("delete-key:" + str(path[-1]), json.dumps(d2)))
        else:
            cur[path[-1]] = cur[path[-1]] + "_undefined"
            out.append(("rename-ref", json.dumps(d2)))
    return out


def run(tier):
    t0 = time.time()
    seed = vlib.seed()
    rnd = random.Random(seed)
    vlib.build_harness()
    V = vlib.Verdicts(PID)
    outs, stats, rs = [], {}, []
    def add(tag, size, prods, roots=("I",), sample=None, **kw):
        o, r = langlib.corpus(tag, size, prods, roots, sample=sample, rng_seed=seed, **kw)
        stats[tag] = {"size": size, "programs": len(o), "states": r.distinct, "generated": r.generated}
        outs.extend(o)
        rs.append(r)
    if tier == "quick":
        add("all4", 4, langlib.ALL_PRODS, roots=("I", "R", "O", "F1"), sample=2500)
        add("calls6", 6, langlib.FOCUS["calls"], sample=1500)
        add("data6", 6, langlib.FOCUS["data"], sample=1500)
    else:
        add("all5", 5, langlib.ALL_PRODS, roots=("I", "R", "O", "F1"), sample=30000)
        add("calls7", 7, langlib.FOCUS["calls"], sample=20000, timeout=3000)
        add("data7", 7, langlib.FOCUS["data"], sample=20000, timeout=3000)
        add("sim", 24, langlib.ALL_PRODS, scope=4, simulate=3000, depth=25, seed=seed)
    seen, progs = set(), []
    for o in outs:
        k = langlib.key_of(o["p"])
        if k not in seen:
            seen.add(k)
            progs.append({"src": langlib.render(o["p"]), "o": o})
    for src in EXTRA:
        progs.append({"src": src, "o": {"p": [["extra", 0, ""]], "k": "extra"}})
    n = len(progs)
    jobs = []
    for i, p in enumerate(progs):
        jobs.append({"id": i, "src": p["src"]})                                       # direct
        jobs.append({"id": n + i, "src": p["src"], "bytecode": True})                  # compile + load in the same VM
        jobs.append({"id": 2 * n + i, "src": p["src"], "mode": "compile"})             # serialised text for the fresh-VM run
    res = vlib.run_pool(["lang"], jobs, workers=14, job_timeout=20)
    # fresh VM: load the text produced above in another process / VM
    jobs2 = []
    for i, p in enumerate(progs):
        c = res.get(2 * n + i)
        if c and c["status"] == "ok":
            jobs2.append({"id": i, "src": c["value"], "mode": "load", "fresh": (i % 20 == 0), "pre": langlib.PREAMBLE + "1 + 1\n"})
    res2 = vlib.run_pool(["lang"], jobs2, workers=14, job_timeout=20)
    agree = 0
    for i, p in enumerate(progs):
        d, b, c, f = res.get(i), res.get(n + i), res.get(2 * n + i), res2.get(i)
        if d is None or b is None:
            continue
        want = langlib.observed_tuple(d)
        rep = {"p": p["o"]["p"], "src": p["src"], "direct": d}
        ok = True
        for tag, r in (("same-vm", b), ("fresh-vm", f)):
            if r is None:
                if tag == "fresh-vm" and c is not None and c["status"] != "ok" and d["status"] == "ok":
                    V.violation("compile-to-bytecode-failed:%s" % (c.get("panic_at") or c["msg"][:60]), "the program runs from source but cannot be compiled to bytecode: %s\n%s" % (c["msg"][:300], p["src"]), rep)
                    ok = False
                continue
            got = langlib.observed_tuple(r)
            if r["status"] in ("panic", "crash", "hang"):
                V.violation("%s:%s:%s" % (tag, r["status"], r.get("panic_at") or r["msg"][:60]), "loading / running bytecode %s the host\n%s" % (r["status"], p["src"]), dict(rep, bytecode=r))
                ok = False
            elif d["status"] == "ok" and got[:2] != want[:2] or d["status"] == "err" and (got[0] != "err" or got[1] != want[1]):
                V.violation("%s:differs:%s->%s" % (tag, want[0], got[0]), "direct run: %s, bytecode (%s): %s %s\n%s" % (want, tag, got, r["msg"][:200], p["src"]), dict(rep, bytecode=r))
                ok = False
            elif got[2] != want[2]:
                V.violation("%s:effects-differ" % tag, "direct run effects %s, bytecode %s\n%s" % (want[2], got[2], p["src"]), dict(rep, bytecode=r))
                ok = False
        agree += ok
    # fault part
    texts = [(i, res[2 * n + i]["value"]) for i in range(n) if res.get(2 * n + i) and res[2 * n + i]["status"] == "ok"]
    rnd.shuffle(texts)
    nprog, ntr, ned = (60, 12, 12) if tier == "quick" else (1500, 30, 40)
    fj, meta = [], {}
    for i, text in texts[:nprog]:
        for kind, bad in corruptions(text, rnd, ntr, ned):
            j = {"id": len(fj), "src": bad, "mode": "load"}
            meta[j["id"]] = (i, kind)
            fj.append(j)
    fres = vlib.run_pool(["lang"], fj, workers=14, job_timeout=20)
    refused = 0
    for j in fj:
        r = fres.get(j["id"])
        if r is None:
            continue
        i, kind = meta[j["id"]]
        if r["status"] in ("panic", "crash", "hang"):
            V.violation("damaged-bytecode:%s:%s:%s" % (kind.split(":")[0], r["status"], r.get("panic_at") or r["msg"][:60]),
                        "loading damaged bytecode (%s) %s the host instead of failing with an error: %s" % (kind, r["status"], r["msg"][:300]),
                        {"kind": kind, "bytecode": j["src"], "src": progs[i]["src"]})
        elif r["status"] == "err":
            refused += 1
    # ---- the seeded (de)serialisation underneath (SeSeed / DeSeed): the value of every program (closures with inner
    # functions included) is serialised, loaded into the same and into a fresh VM, the loading thread collects, and the
    # loaded value must still behave like the original (functions are applied to fixed arguments)
    vprogs = [p for p in progs if p["o"].get("k") != "extra"]
    if tier == "quick" and len(vprogs) > 1500:
        vprogs = rnd.sample(vprogs, 1500)
    more, _r = langlib.corpus("c12fn", 5 if tier == "quick" else 6, langlib.FOCUS["calls"], roots=("F1", "F2"), sample=600 if tier == "quick" else 10000, rng_seed=seed + 3)
    rs.append(_r)
    vprogs = vprogs + [{"src": langlib.render(o["p"], prim=True), "o": o} for o in more]
    vjobs = [{"id": i, "src": p["src"] if p["src"].startswith("let { Bool") else langlib.render(p["o"]["p"], prim=True), "mode": "valueser", "prelude": False} for i, p in enumerate(vprogs)]
    vres = vlib.run_pool(["lang"], vjobs, workers=14, job_timeout=60)
    vloaded = vfun = 0
    for j in vjobs:
        r = vres.get(j["id"])
        if r is None:
            continue
        rep = {"valueser": True, "src": j["src"]}
        if r["status"] in ("panic", "crash", "hang"):
            V.violation("valueser:%s:%s" % (r["status"], r.get("panic_at") or r["msg"][:60]), "serialising / loading the value of a program %s the host: %s\n%s" % (r["status"], r["msg"][-300:], j["src"]), rep)
            continue
        v = json.loads(r["value"]) if r.get("value") else {}
        if v.get("status") != "ok":
            continue
        for ld in v["loads"]:
            if "error" in ld:
                continue          # values that refer to host functions are refused with an error: fine
            vloaded += 1
            if "call(" in v["direct"]:
                vfun += 1
            for when in ("before_gc", "after_gc"):
                if ld[when] != v["direct"]:
                    V.violation("valueser:%s:%s-differs" % (ld["vm"], when.replace("_", "-")),
                                "a value of type %s loaded into the %s VM gives %s %s, the original gives %s\n%s" % (v["type"], ld["vm"], ld[when], "after the loading thread collected" if when == "after_gc" else "right after loading", v["direct"], j["src"]), rep)
                    break
    rc = V.finish()
    vlib.write_evidence(PID, tier, "model_checking", {
        "states": sum(r.distinct for r in rs), "transitions": sum(r.generated for r in rs),
        "traces_validated_against_impl": n, "samples": [{"src": p["src"]} for p in progs[:: max(1, n // 3)][:3]],
        "evaluations": len(res) + len(res2) + len(fres), "distinct_nontrivial": n, "agreed": agree,
        "value_round_trips": vloaded, "value_round_trips_of_functions": vfun, "damaged_loads": len(fres), "damaged_refused_with_error": refused,
        "rule": "Lang.tla programs, each run directly, through compile_to_bytecode + Precompiled in the same VM, and loaded into another VM; plus truncations at structural boundaries, deleted keys and renamed string references of the serialised modules (crash / hang = violation, error = fine)",
        "corpora": stats, "exhaustive": False, "known_findings_hit": {k: v[1] for k, v in V.known_hits.items()},
    }, ["serde_json is the serialisation format exercised", "a damaged module that still loads is not judged (the property only demands that undefined references and truncations do not crash)"],
        time.time() - t0, len(V.violations))
    return rc


def replay(path):
    d = json.load(open(path))["replay"]
    if d.get("valueser"):
        r = vlib.run_pool(["lang"], [{"id": 0, "src": d["src"], "mode": "valueser", "prelude": False}], workers=1, job_timeout=60)[0]
        print(d["src"]); print(json.dumps(r)[:2000])
        v = json.loads(r["value"]) if r.get("status") == "ok" and r.get("value") else {}
        bad = r.get("status") != "ok" or any("error" not in ld and (ld["before_gc"] != v["direct"] or ld["after_gc"] != v["direct"]) for ld in v.get("loads", []))
        if bad:
            print("VIOLATION property=%s replay=%s" % (PID, path)); return 1
        return 0
    if "bytecode" in d and isinstance(d["bytecode"], str):
        r = vlib.run_pool(["lang"], [{"id": 0, "src": d["bytecode"], "mode": "load"}], workers=1, job_timeout=20)[0]
        print(json.dumps(r)[:800])
        bad = r["status"] in ("panic", "crash", "hang")
    else:
        res = vlib.run_pool(["lang"], [{"id": 0, "src": d["src"]}, {"id": 1, "src": d["src"], "bytecode": True}], workers=1, job_timeout=20)
        print(d["src"]); print(json.dumps(res[0])[:500]); print(json.dumps(res[1])[:500])
        bad = langlib.observed_tuple(res[0]) != langlib.observed_tuple(res[1])
    if bad:
        print("VIOLATION property=%s replay=%s" % (PID, path))
        return 1
    return 0

"""C16: compilation and evaluation are deterministic.
Session.tla is the determinism monitor: the observation (value rendering, type text, diagnostics text) of a program is
bound at its first observation and every later observation - in another VM, another process, after unrelated work, in
another order - must be equal.  TLC generates the histories (which program on which VM, in which order); the harness
executes them (fresh VMs per history, histories spread over separate worker processes) and the recorded events are
validated against Trace_Session.tla."""
import json, os, random, re, time, zlib
import vlib, langlib

PID = "C16"

EXTRA = [
    "let map = import! std.map\nlet { (<>) } = import! std.semigroup\nlet m = map.insert \"b\" 2 (map.insert \"a\" 1 map.empty)\nmap.to_list m\n",
    "let string = import! std.string\nstring.len (string.trim \"  ab  \")\n",
    "let list @ { List } = import! std.list\nlist.of [3, 1, 2]\n",
    "let { show } = import! std.show\nshow 12\n",
    "\\x y -> x + y + z\n",
    "let f x = x.missing_field in f { a = 1 }\n",
    "match 1 with\n| \"a\" -> 2\n",
    "let x : String = 1 in x\n",
    "let { Option } = import! std.option\nlet f x : Option a -> a = match x with\n    | Some y -> y\nf None + 1\n",
    "1 +\n",
    "{ x = 1, y = \"s\", z = 2.5, w = [1, 2] }\n",
    "import! std.does.not.exist\n",
]


def obs_hash(o):
    text = "\x1f".join([o["status"], o["value"], o["type"], o["msg"], json.dumps(o["log"])])
    return (zlib.crc32(text.encode()) & 0x3FFFFFFF) + 1


def diff_kind(a, b):
    for k in ("status", "value", "type", "msg", "log"):
        if a[k] != b[k]:
            if k == "msg":
                # which part of the diagnostics differs, digits masked so the key stays stable
                la, lb = a["msg"].splitlines(), b["msg"].splitlines()
                for x, y in zip(la, lb):
                    if x != y:
                        return "msg:" + re.sub(r"\d+", "N", x.strip())[:60]
                return "msg:length"
            return k
    return "same"


def run(tier):
    t0 = time.time()
    seed = vlib.seed()
    rnd = random.Random(seed)
    vlib.build_harness()
    V = vlib.Verdicts(PID)
    mc = vlib.run_tlc("Session", "MC_Session", workers=4, timeout=600)
    if mc.violation:
        V.violation("model:" + mc.violation, "Session.tla violates %s" % mc.violation, {"trace": mc.trace})
    good, r1 = langlib.corpus("c16good", 4, langlib.ALL_PRODS, roots=("I", "R", "O", "F1"), rng_seed=seed, sample=200 if tier == "quick" else 3000)
    muts, r2 = langlib.corpus("c16mut", 4, langlib.ALL_PRODS, roots=("I",), rng_seed=seed, mutations=1, sample=1500 if tier == "quick" else 20000)
    muts = [m for m in muts if m["k"] == "mutant"][: (200 if tier == "quick" else 3000)]
    sources = [langlib.render(o["p"]) for o in good] + [langlib.render(m["p"]) for m in muts] + [langlib.render(o["p"], bare=True) for o in good[:40]] + EXTRA
    rnd.shuffle(sources)
    NP = 40
    batches = [sources[i:i + NP] for i in range(0, len(sources), NP)]
    nh = 12 if tier == "quick" else 60          # histories per batch
    sim = vlib.run_tlc("Session", "Sim_Session", workers=4, simulate=max(1, (nh * len(batches)) // 4 + 1), depth=13, seed_=seed, timeout=900, print_prefix='"HIST"')
    hists = [h for h in (vlib.tlc_value_to_json(l) for l in sim.prints) if h]
    rnd.shuffle(hists)
    jobs, meta = [], {}
    hi = 0
    for b, progs in enumerate(batches):
        # every program of the batch is first observed once in its own fresh VM (two separate processes see it)
        for rep in range(2):
            for k in range(0, len(progs), 10):
                hist = [{"vm": 1 + i, "prog": b * NP + k + i + 1, "src": progs[k + i]} for i in range(min(10, len(progs) - k))]
                jobs.append({"id": len(jobs), "history": hist})
        for _ in range(nh):
            if hi >= len(hists):
                break
            h = hists[hi]; hi += 1
            hist = [{"vm": v, "prog": b * NP + ((p - 1) % len(progs)) + 1, "src": progs[(p - 1) % len(progs)]} for v, p in h]
            jobs.append({"id": len(jobs), "history": hist})
    rnd.shuffle(jobs)
    for i, j in enumerate(jobs):
        j["id"] = i
    res = vlib.run_pool(["lang"], jobs, workers=14, job_timeout=120)
    # events: one per evaluation; VM ids made unique per history
    wd = vlib.workdir("c16")
    trace = os.path.join(wd, "trace.ndjson")
    events, first = [], {}
    nev = 0
    with open(trace, "w") as f:
        for j in jobs:
            r = res.get(j["id"])
            if r is None or "obs" not in r:
                if r is not None and r.get("status") in ("hang", "crash"):
                    V.violation("history:%s" % r["status"], "a history %s the worker: %s" % (r["status"], r.get("msg", "")[:300]), {"history": j["history"]})
                continue
            for step, o in zip(j["history"], r["obs"]):
                h = obs_hash(o)
                ev = {"vm": j["id"] * 10 + o["vm"], "prog": step["prog"], "obs": h, "frames": 1, "slen": 0}
                f.write(json.dumps(ev) + "\n")
                events.append((ev, o, step["src"], j["id"]))
                nev += 1
    tv = vlib.run_tlc("Trace_Session", "Trace_Session", workers=1, timeout=1200, env={"TRACE": trace}, dfs=True, xss="1g", xmx="4g")
    rejected = tv.violation is not None
    # explain every disagreement (the verdict is TLC's; this only keys and describes it)
    nondet = 0
    for ev, o, src, jid in events:
        p = ev["prog"]
        if p not in first:
            first[p] = (o, jid)
        elif obs_hash(first[p][0]) != ev["obs"]:
            nondet += 1
            kind = diff_kind(first[p][0], o)
            V.violation("nondeterministic:" + kind, "the same source gave two different observations\nfirst : %s\nlater : %s\n%s" % (
                json.dumps({k: first[p][0][k] for k in ("status", "value", "type", "msg")})[:700], json.dumps({k: o[k] for k in ("status", "value", "type", "msg")})[:700], src), {"src": src, "first": first[p][0], "later": o})
    if rejected and nondet == 0:
        V.violation("trace-rejected", "Trace_Session rejected the recorded session but no differing observation was found: %s" % tv.out[-500:], {})
    # ---- scheduling dimension (Imports.tla): the completion order of a module's import tasks must not show
    im = vlib.run_tlc("Imports", "MC_Imports", workers=2, timeout=600, print_prefix='"SCHED"')
    ia = vlib.run_tlc("Imports", "MC_Imports_Arrival", workers=2, timeout=600)
    if im.violation:
        V.violation("model:Imports:%s" % im.violation, "Imports.tla violates %s" % im.violation, {"trace": im.trace})
    scheds = sorted((x for x in (vlib.tlc_value_to_json(l) for l in im.prints) if x), key=json.dumps)
    BROKEN = ['1 #Int+ "m%d is broken"\n', '2.0 #Float+ "m%d is broken"\n', 'let x = y%d\nx\n']
    shapes = {"flat": lambda k, bad: (BROKEN[(k - 1) % 3] % k) if bad else "%d\n" % k,
              # a broken module that is slow to finish because it imports another one first
              "nested": lambda k, bad: ("let q = import! leaf%d\n" % k) + ((BROKEN[(k - 1) % 3] % k) if bad else "q\n")}
    sjobs, smeta = [], {}
    for shape, mk in shapes.items():
        for sc in scheds:
            n = sc["n"]
            mods = [["m%d" % k, mk(k, k in sc["broken"])] for k in range(1, n + 1)] + [["leaf%d" % k, "%d\n" % (k * 10)] for k in range(1, n + 1)]
            main = "".join("let v%d = import! m%d\n" % (k, k) for k in range(1, n + 1)) + "{ " + ", ".join("v%d" % k for k in range(1, n + 1)) + " }\n"
            j = {"id": len(sjobs), "modules": mods, "main": main, "order": sc["order"]}
            smeta[j["id"]] = (shape, tuple(sc["broken"]), sc["order"])
            sjobs.append(j)
    sres = vlib.run_pool(["sched"], sjobs, workers=8, job_timeout=60)
    groups = {}
    for j in sjobs:
        r = sres.get(j["id"])
        shape, broken, order = smeta[j["id"]]
        if r is None:
            continue
        nev += 1
        rep = {"sched_job": j}
        if r.get("status") != "ok":
            V.violation("schedule:%s" % r.get("status"), "compiling a module with %d imports under completion order %s: %s %s" % (len(order), order, r.get("status"), r.get("text", r.get("msg", ""))[:300]), rep)
            continue
        pos = [r["text"].find("m%d is broken" % k) if (k - 1) % 3 != 2 else r["text"].find("y%d" % k) for k in broken]
        if any(p < 0 for p in pos) or pos != sorted(pos):
            V.violation("schedule:errors-out-of-source-order", "broken imports %s, completion order %s: the diagnostics do not list the errors in source order\n%s" % (list(broken), order, r["text"][:600]), rep)
        groups.setdefault((shape, broken), []).append((order, r["text"], j))
    for (shape, broken), rs in groups.items():
        texts = {t for _, t, _ in rs}
        if len(texts) > 1:
            a = rs[0]
            b = next(x for x in rs if x[1] != a[1])
            V.violation("schedule:nondeterministic", "the same sources (%s, broken imports %s) give different diagnostics when the import tasks finish in order %s and in order %s" % (shape, list(broken), a[0], b[0]),
                        {"sched_job": b[2], "sched_other": a[2]})
    rc = V.finish()
    vlib.write_evidence(PID, tier, "model_checking", {
        "states": mc.distinct, "transitions": mc.generated, "traces_validated_against_impl": len(jobs),
        "samples": [[(s["vm"], s["prog"]) for s in j["history"]] for j in jobs[:2]],
        "evaluations": nev, "distinct_nontrivial": len(sources), "trace_events": nev, "trace_accepted_by_tlc": not rejected,
        "rule": "histories generated by TLC from Session.tla (12 evaluations over 3 VMs) over batches of 40 sources (well-typed Lang.tla programs, ill-typed Retype mutants, unannotated-error variants, std-using and erroneous hand-written sources), each source also observed twice in fresh VMs of separate processes; every evaluation is one trace event; distinct_nontrivial = number of distinct sources",
        "schedules_replayed": len(sjobs), "imports_model_states": im.distinct, "imports_arrival_mutant_rejected_by": ia.violation,
        "exhaustive": False, "known_findings_hit": {k: v[1] for k, v in V.known_hits.items()},
    }, ["the scheduling dimension uses a VM without the std library whose spawner is a deterministic executor polling the import tasks in the priority order TLC chose (Imports.tla, all completion orders of 3 imports x all subsets of broken ones x 2 module shapes)",
        "observation = status, canonical value rendering, type text, full error text (addresses are not masked), effect log, compared through a 30-bit hash in the trace and in full in the explanation"],
        time.time() - t0, len(V.violations))
    return rc


def replay(path):
    d = json.load(open(path))["replay"]
    if "sched_job" in d:
        js = [d["sched_job"]] + ([d["sched_other"]] if "sched_other" in d else [])
        for k, j in enumerate(js):
            j["id"] = k
        rs = vlib.run_pool(["sched"], js, workers=1, job_timeout=60)
        for k in sorted(rs):
            print(js[k]["order"], rs[k].get("status"), rs[k].get("text", "")[:1500])
        if any(r.get("status") != "ok" for r in rs.values()) or len({r.get("text") for r in rs.values()}) > 1:
            print("VIOLATION property=%s replay=%s" % (PID, path)); return 1
        return 0
    if "src" not in d:
        print("VIOLATION property=%s replay=%s" % (PID, path)); return 1
    hist = [{"vm": 1, "prog": 1, "src": d["src"]}]
    filler = [{"vm": 1, "prog": 2 + i, "src": s} for i, s in enumerate(EXTRA)]
    jobs = [{"id": 0, "history": hist}, {"id": 1, "history": filler + hist}, {"id": 2, "history": hist + filler + hist}]
    res = vlib.run_pool(["lang"], jobs, workers=1, job_timeout=120)
    obs = [o for j in jobs for s, o in zip(j["history"], res[j["id"]]["obs"]) if s["prog"] == 1]
    hs = {obs_hash(o) for o in obs}
    for o in obs:
        print(json.dumps({k: o[k] for k in ("status", "value", "type", "msg")})[:400])
    if len(hs) > 1:
        print("VIOLATION property=%s replay=%s" % (PID, path)); return 1
    return 0

"""C14: parallel execution is safe and equivalent to running alone.
Locks.tla (lock acquisition sequences of the public operations; TLC reports cyclic waits) and ModulesPar.tla (racing
requesters: every module body at most once, everyone served) are model-checked.  Binding: stress rounds with 2-16 OS
threads, each compiling and running programs on its own child thread of one VM - overlapping imports of modules that
report their evaluation, allocation pressure (optionally collect-at-every-allocation), channel traffic - compared
with the same programs run alone; the cyclic wait Locks.tla predicts (collection of the parent vs pushing a
parent-rooted value onto a child) is attempted on the real VM under a watchdog."""
import json, os, random, time
import vlib

PID = "C14"


def module_srcs():
    return [["pm1", "let { tick } = import! host\ntick 1 5\n"],
            ["pm2", "let { tick } = import! host\nlet a = import! pm1\ntick 2 (a + 10)\n"],
            ["pm3", "let { tick } = import! host\nlet a = import! pm1\nlet b = import! pm2\ntick 3 (a + b + 100)\n"]]


PROGS = [
    "let m = import! pm3\nm + 1\n",
    "let a = import! pm1\nlet b = import! pm2\na + b\n",
    "let array = import! std.array.prim\nlet m = import! pm2\nrec let build n acc = if n == 0 then array.len acc + m else build (n - 1) (array.append acc [n])\nbuild 60 []\n",
    "let list @ { List } = import! std.list\nlet m = import! pm1\nrec let build n acc = if n == 0 then acc else build (n - 1) (Cons (n + m) acc)\nrec let sum l acc =\n    match l with\n    | Cons x r -> sum r (acc + x)\n    | Nil -> acc\nsum (build 200 Nil) 0\n",
    "let { channel, send, recv } = import! std.channel\nlet { wrap } = import! std.applicative\nlet { flat_map } = import! std.monad\nlet io @ { ? } = import! std.io\nlet { Result } = import! std.result\nlet m = import! pm3\ndo c = channel 0\nseq send c.sender { a = m, b = [m, m] }\ndo r = recv c.receiver\nmatch r with\n| Ok v -> wrap (v.a + 2)\n| Err _ -> wrap 0\n",
    "let string = import! std.string\nlet m = import! pm2\nstring.len (string.trim \"  abc  \") + m\n",
    "let map = import! std.map\nlet m = import! pm1\nlet t = map.insert \"b\" (m + 1) (map.insert \"a\" m map.empty)\nmap.to_list t\n",
    "let { lazy, force } = import! std.lazy\nlet m = import! pm3\nlet l = lazy (\\_ -> m * 2)\nforce l + force l\n",
]
IO_PROGS = {4}


def run(tier):
    t0 = time.time()
    seed = vlib.seed()
    rnd = random.Random(seed)
    vlib.build_harness()
    V = vlib.Verdicts(PID)
    l1 = vlib.run_tlc("MC_Locks", "MC_Locks_Siblings", workers=2, timeout=600)
    l2 = vlib.run_tlc("MC_Locks", "MC_Locks_CollectVsPush", workers=2, timeout=600)
    mp = vlib.run_tlc("MC_ModulesPar", "MC_ModulesPar", workers=2, timeout=600, deadlock=True)
    if l1.violation:
        V.violation("model:Locks:siblings:%s" % l1.violation, "Locks.tla: sibling threads scenario has a cyclic wait\n%s" % "\n".join(l1.trace[-2:]), {"trace": l1.trace})
    if mp.violation:
        V.violation("model:ModulesPar:%s" % mp.violation, "ModulesPar.tla violates %s" % mp.violation, {"trace": mp.trace})
    predicted_cycle = l2.violation is not None
    # ---- solo references
    mods = module_srcs()
    solo_jobs = [{"id": i, "modules": mods, "threads": [[p]]} for i, p in enumerate(PROGS)]
    # run_io for the channel program: handled by value rendering of the IO action result (run through run_expr with run_io off gives <fn>)
    solo = vlib.run_pool(["par"], solo_jobs, workers=8, job_timeout=120)
    ref = {}
    for i, p in enumerate(PROGS):
        r = solo.get(i)
        if r is None or r.get("status") != "ok":
            raise vlib.ToolError("solo run of program %d failed: %s" % (i, r))
        ref[i] = r["results"][0][0]
    # ---- stress rounds
    rounds = 250 if tier == "quick" else 3000
    jobs = []
    for k in range(rounds):
        nthreads = rnd.choice([2, 3, 4, 8, 16] if tier == "thorough" else [2, 4, 8])
        lists, idx = [], []
        for t in range(nthreads):
            ps = [rnd.randrange(len(PROGS)) for _ in range(rnd.choice([1, 2, 3]))]
            idx.append(ps)
            lists.append([PROGS[i] for i in ps])
        jobs.append({"id": k, "modules": mods, "threads": lists, "gc_stress": rnd.choice([0, 0, 1, 3]), "idx": idx})
    res = vlib.run_pool(["par"], [{k: v for k, v in j.items() if k != "idx"} for j in jobs], workers=6, job_timeout=180)
    evals = agree = 0
    for j in jobs:
        r = res.get(j["id"])
        if r is None:
            continue
        rep = {"threads": j["threads"], "gc_stress": j["gc_stress"], "observed": {k: r.get(k) for k in ("status", "ticks", "dangling", "msg")}}
        if r.get("status") in ("hang", "crash"):
            # a hang must reproduce to count (one flaky alarm would discredit the rest)
            again = vlib.run_pool(["par"], [{k: v for k, v in j.items() if k != "idx"}], workers=1, job_timeout=180).get(j["id"], {})
            if again.get("status") == r.get("status"):
                V.violation("stress:%s:reproduced%s" % (r["status"], ":gc-stress" if j["gc_stress"] else ""), "%d OS threads: the VM %s (twice with the same programs): %s" % (len(j["threads"]), r["status"], r.get("msg", "")[-400:]), rep)
            else:
                V.divergence("%s in a stress round with %d threads did not reproduce" % (r["status"], len(j["threads"])))
            continue
        if r.get("dangling"):
            V.violation("stress:dangling%s" % (":gc-stress" if j["gc_stress"] else ""), "%d freed objects are reachable after the round" % r["dangling"], rep)
        counts = {}
        for t in r.get("ticks", []):
            counts[t] = counts.get(t, 0) + 1
        for m, c in counts.items():
            if c > 1:
                V.violation("stress:module-evaluated-%d-times" % min(c, 3), "module pm%d was evaluated %d times by %d racing OS threads" % (m, c, len(j["threads"])), rep)
        for ps, rs in zip(j["idx"], r["results"]):
            if rs == "thread-panicked":
                V.violation("stress:thread-panicked", "an OS thread panicked", rep)
                continue
            for pi, o in zip(ps, rs):
                evals += 1
                want = ref[pi]
                if o["status"] == "panic":
                    V.violation("stress:panic:%s" % o["msg"][:50], "program %d panicked in a parallel round: %s" % (pi, o["msg"][:300]), rep)
                elif (o["status"], o["value"]) != (want["status"], want["value"]):
                    V.violation("stress:differs-from-solo:prog%d" % pi, "program %d run by one of %d OS threads gave %s %s %s, alone it gives %s %s" % (pi, len(j["threads"]), o["status"], o["value"], o["msg"][:200], want["status"], want["value"]), rep)
                else:
                    agree += 1
    # ---- a collection of the root (which marks and sweeps every child heap) while the children run on other OS threads:
    # Heap.tla's Collect is one atomic step for the whole subtree - a child must not allocate between being marked
    # and being swept.  The programs call a primitive at every iteration (the context lock is released there).
    PC_PROG = ("let list @ { List } = import! std.list\nlet array = import! std.array.prim\n"
               "rec let build n acc = if n == 0 then acc else build (n - 1) (Cons (n + array.len [n]) acc)\n"
               "rec let sum l acc =\n    match l with\n    | Cons x r -> sum r (acc + x)\n    | Nil -> acc\n"
               "rec let go k acc = if k == 0 then acc else go (k - 1) (acc + sum (build %d Nil) 0)\ngo %d 0\n")
    pc_jobs = []
    for k in range(8 if tier == "quick" else 80):
        n, reps = rnd.choice([(300, 100), (50, 400), (1000, 30)])
        prog = PC_PROG % (n, reps)
        pc_jobs.append({"id": k, "modules": mods, "threads": [[prog]] * rnd.choice([2, 3, 4]), "parent_collects": True, "warmup": [prog],
                        "expect": str(reps * (n * (n + 1) // 2 + n))})
    pres = vlib.run_pool(["par"], [{k: v for k, v in j.items() if k != "expect"} for j in pc_jobs], workers=3, job_timeout=180)
    pc_collections = 0
    for j in pc_jobs:
        r = pres.get(j["id"])
        if r is None:
            continue
        rep = {"threads": j["threads"], "parent_collects": True, "warmup": j["warmup"], "expect": j["expect"], "observed": {k: r.get(k) for k in ("status", "dangling", "msg", "results")}}
        if r.get("status") in ("hang", "crash"):
            again = [vlib.run_pool(["par"], [{k: v for k, v in j.items() if k != "expect"}], workers=1, job_timeout=180).get(j["id"], {}).get("status") for _ in range(2)]
            if r["status"] in again:
                V.violation("parent-collects:%s" % r["status"], "the root collects while %d children run on their own OS threads: the VM %s (reproduced): %s" % (len(j["threads"]), r["status"], r.get("msg", "")[-400:]), rep)
            else:
                V.divergence("%s in a parent-collects round did not reproduce" % r["status"])
            continue
        pc_collections += r.get("parent_collections", 0)
        if r.get("dangling"):
            V.violation("parent-collects:dangling", "%d freed objects are reachable after the round" % r["dangling"], rep)
        for rs in r["results"]:
            evals += 1
            o = rs[0] if isinstance(rs, list) else {"status": rs, "value": "", "msg": ""}
            if (o["status"], o["value"]) != ("ok", j["expect"]):
                V.violation("parent-collects:wrong-result", "a child computing while the root collects gave %s %s %s, expected %s" % (o["status"], o["value"], o["msg"][:200], j["expect"]), rep)
            else:
                agree += 1
    # ---- the predicted cyclic wait on the real VM
    iters = 3000 if tier == "quick" else 30000
    cv = vlib.run_pool(["par"], [{"id": 0, "scenario": "collect_vs_push", "iterations": iters}], workers=1, job_timeout=90 if tier == "quick" else 400, retry_hangs=False)
    c = cv.get(0, {})
    if c.get("status") == "hang":
        again = vlib.run_pool(["par"], [{"id": 0, "scenario": "collect_vs_push", "iterations": iters}], workers=1, job_timeout=90 if tier == "quick" else 400, retry_hangs=False).get(0, {})
        if again.get("status") == "hang":
            V.violation("deadlock:collect-vs-push", "an OS thread collecting on the parent and another pushing a parent-rooted value onto a child dead-lock (the cyclic wait Locks.tla predicts: ctx[P] -> ctx[C] vs ctx[C] -> ctx[P])", {"scenario": "collect_vs_push"})
    elif c.get("status") == "crash":
        V.violation("crash:collect-vs-push", "collect-vs-push scenario crashed: %s" % c.get("msg", "")[-300:], {"scenario": "collect_vs_push"})
    rc = V.finish()
    vlib.write_evidence(PID, tier, "model_checking", {
        "states": l1.distinct + l2.distinct + mp.distinct, "transitions": l1.generated + l2.generated + mp.generated,
        "traces_validated_against_impl": len(res), "samples": [j["idx"] for j in jobs[:3]],
        "evaluations": evals, "distinct_nontrivial": len(jobs), "agree_with_solo": agree,
        "locks_model_predicts_cycle_collect_vs_push": predicted_cycle, "collect_vs_push_on_vm": c.get("status"), "collect_vs_push_detail": {k: c.get(k) for k in ("a_finished", "b_calls_ok")},
        "rule": "%d stress rounds with 2-16 OS threads, 1-3 programs each from 8 templates (overlapping imports of three tick-reporting modules, allocation, lists, channels, maps, lazies), gc stress 0/1/3; results compared with solo runs; module evaluation counts from host.tick; non-trivial = rounds" % rounds,
        "parent_collects_rounds": len(pc_jobs), "parent_collections_while_children_ran": pc_collections,
        "exhaustive": False, "known_findings_hit": {k: v[1] for k, v in V.known_hits.items()}, "divergences": V.divergences[:10],
    }, ["OS-thread interleavings below the granularity of whole operations are sampled by the stress rounds, not enumerated (no sync-point hooks were built)",
        "a hang counts only if it reproduces with the same programs"], time.time() - t0, len(V.violations))
    return rc


def replay(path):
    d = json.load(open(path))["replay"]
    if d.get("scenario"):
        r = vlib.run_pool(["par"], [{"id": 0, "scenario": d["scenario"], "iterations": 300}], workers=1, job_timeout=120).get(0, {})
    else:
        job = {"id": 0, "modules": module_srcs(), "threads": d["threads"], "gc_stress": d.get("gc_stress", 0)}
        if d.get("parent_collects"):
            job.update({"parent_collects": True, "warmup": d.get("warmup", [])})
        r = vlib.run_pool(["par"], [job], workers=1, job_timeout=180).get(0, {})
        if d.get("expect") and r.get("status") == "ok" and any(rs[0].get("value") != d["expect"] for rs in r["results"]):
            print("VIOLATION property=%s replay=%s" % (PID, path)); return 1
    print(json.dumps(r)[:1500])
    if r.get("status") in ("hang", "crash") or r.get("dangling"):
        print("VIOLATION property=%s replay=%s" % (PID, path)); return 1
    return 0

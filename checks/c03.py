"""C03: type inference is complete and principal on the ML fragment.
LangW.tla is algorithm W (with Remy-style presence types for the records over {x, y}) written in TLA+; TLC enumerates
all untyped terms of the fragment up to a size bound and computes `untypable` or the principal type in canonical form.
Every term is given to gluon's checker (prelude off): accepted <=> typable, reported type = principal type up to
renaming; renaming the bound variables, adding an unused binding and annotating the term with the inferred type must
not change acceptance or the type."""
import json, os, random, time
import vlib, langlib, wlib

PID = "C03"


FOCUS = {
    "match": "mopt none some lam var int str".split(),
    "lets": "let lam app var recx px if tt int".split(),
}


def enumerate_terms(tag, size, prods, simulate=None, depth=None, seed=None, timeout=3000):
    cfg = "SPECIFICATION Spec\nCONSTANTS\n  MaxSize = %d\n  MaxScope = 3\n  Emit = TRUE\n  StartScope = 0\n  Prods = {%s}\nINVARIANTS Emitted\nCHECK_DEADLOCK FALSE\n" % (
        size, ", ".join('"%s"' % p for p in prods))
    name = "_c03_%s_%d" % (tag, os.getpid())
    open(os.path.join(vlib.SPEC, name + ".cfg"), "w").write(cfg)
    out = []
    def cb(line):
        o = vlib.tlc_value_to_json(line)
        if o:
            out.append(o)
    try:
        r = vlib.run_tlc("LangW", name, workers=12, timeout=timeout, print_prefix='"TERM"', print_cb=cb, xss="512m", xmx="12g", simulate=simulate, depth=depth, seed_=seed)
    finally:
        os.remove(os.path.join(vlib.SPEC, name + ".cfg"))
    if r.violation:
        raise vlib.ToolError("LangW.tla: %s" % r.violation)
    return out, r


def fillers(tag, size, scope, prods):
    """all terms of at most `size` nodes which may refer to `scope` variables already bound (LangW.tla HoleSpec)"""
    cfg = "SPECIFICATION HoleSpec\nCONSTANTS\n  MaxSize = %d\n  MaxScope = 3\n  Emit = TRUE\n  StartScope = %d\n  Prods = {%s}\nINVARIANTS EmittedRaw\nCHECK_DEADLOCK FALSE\n" % (
        size, scope, ", ".join('"%s"' % p for p in prods))
    name = "_c03_%s_%d" % (tag, os.getpid())
    open(os.path.join(vlib.SPEC, name + ".cfg"), "w").write(cfg)
    out = []
    def cb(line):
        o = vlib.tlc_value_to_json(line)
        if o:
            out.append(o["p"])
    try:
        r = vlib.run_tlc("LangW", name, workers=4, timeout=1200, print_prefix='"TERM"', print_cb=cb, xss="512m", xmx="8g")
    finally:
        os.remove(os.path.join(vlib.SPEC, name + ".cfg"))
    if r.violation:
        raise vlib.ToolError("LangW.tla: %s" % r.violation)
    out.sort(key=json.dumps)
    return out, r


def skeleton_terms(tier, seed):
    """the generalisation-sensitive family  (\\x -> let g = \\y -> H in K) A : H sees x and y, K sees x and g, A is
    closed; TLC enumerates the fillers of each hole, the product is formed here (sampled in the quick tier)"""
    prods = ["var", "int", "str", "tt", "app", "if", "lam"]
    hs, r1 = fillers("skelH", 6, 2, prods)
    ks, r2 = fillers("skelK", 3, 2, ["var", "int", "str", "app"])
    as_, r3 = fillers("skelA", 2, 0, ["var", "int", "str", "lam"])
    as_ = [a for a in as_ if a[0][0] == "lam"]
    # only fillers that can matter: H mentions x and y (otherwise the type of g is not tied to x), K mentions g
    hs = [h for h in hs if any(n == ["var", 1] for n in h) and any(n == ["var", 2] for n in h)]
    ks = [k for k in ks if any(n == ["var", 2] for n in k)]
    rnd = random.Random(seed + 17)
    head = [["app", 0], ["lam", 0], ["let", 0], ["lam", 0]]
    n = 40000 if tier == "quick" else 600000
    total = len(hs) * len(ks) * len(as_)
    out = []
    if total <= n:
        for h in hs:
            for k in ks:
                for a in as_:
                    out.append(head + h + k + a)
    else:
        seen = set()
        while len(out) < n:
            t = (rnd.randrange(len(hs)), rnd.randrange(len(ks)), rnd.randrange(len(as_)))
            if t not in seen:
                seen.add(t)
                out.append(head + hs[t[0]] + ks[t[1]] + as_[t[2]])
    class R: pass
    r = R(); r.distinct = r1.distinct + r2.distinct + r3.distinct; r.generated = r1.generated + r2.generated + r3.generated
    r.total = total
    return out, r


def terms(tier, seed):
    rnd = random.Random(seed)
    outs, rs = [], []
    def add(tag, size, prods, cap=None, **kw):
        o, r = enumerate_terms(tag, size, prods, **kw)
        o.sort(key=lambda t: json.dumps(t["p"]))          # TLC's output order depends on its worker threads
        if cap and len(o) > cap:
            o = rnd.sample(o, cap)
        outs.extend(o)
        rs.append(r)
    if tier == "quick":
        add("all", 5, wlib.ALL, cap=30000)
        add("match", 7, FOCUS["match"], cap=12000)
        add("lets", 7, FOCUS["lets"], cap=12000)
    else:
        add("all", 6, wlib.ALL, cap=250000)
        add("match", 8, FOCUS["match"], cap=100000)
        add("lets", 9, FOCUS["lets"], cap=100000)
        add("sim", 18, FOCUS["lets"], simulate=3000, depth=19, seed=seed)
    seen, res = set(), []
    for t in outs:
        k = json.dumps(t["p"])
        if k not in seen:
            seen.add(k)
            res.append(t)
    class R: pass
    r = R(); r.distinct = sum(x.distinct for x in rs); r.generated = sum(x.generated for x in rs)
    return res, r


def run(tier):
    t0 = time.time()
    seed = vlib.seed()
    rnd = random.Random(seed)
    vlib.build_harness()
    V = vlib.Verdicts(PID)
    ts, r = terms(tier, seed)
    typable = [t for t in ts if t["ok"]]
    vlib.log("[C03] %d terms (%d typable overall)" % (len(ts), len(typable)))
    jobs = [{"id": i, "src": wlib.render(t["p"]), "mode": "typecheck", "prelude": False} for i, t in enumerate(ts)]
    res = vlib.run_pool(["lang"], jobs, workers=14, job_timeout=30)
    agree = 0
    nested = [0]
    variants = []
    for i, t in enumerate(ts):
        g = res.get(i)
        if g is None:
            continue
        src = jobs[i]["src"]
        rep = {"p": t["p"], "src": src, "model": t, "gluon": {k: g.get(k) for k in ("status", "type", "msg")}}
        shape = ",".join(sorted({n[0] for n in t["p"]} & {"let", "px", "py", "recx", "recxy", "app", "lam", "if", "arr2", "none", "some", "tup", "mopt"}))
        if g["status"] in ("panic", "crash", "hang"):
            what = "stack-overflow" if "overflowed its stack" in g["msg"] else (g.get("panic_at") or g["msg"][:60])
            if t["ok"]:
                V.violation("checker-%s:%s" % (g["status"], what), "the checker %s on a typable term\n%s" % (g["status"], src), rep)
            else:
                # an untypable term must be rejected, not crash the checker - that is C09's claim (front end total)
                V.divergence("checker %s (%s) on the untypable term %s" % (g["status"], what, src.splitlines()[-1]))
            continue
        if t["ok"] and g["status"] != "ok":
            V.violation("rejected-typable:%s" % shape, "algorithm W types this term as %s but gluon rejects it: %s\n%s" % (wlib.show_type(t["t"]), g["msg"][:300], src), rep)
            continue
        if not t["ok"] and g["status"] == "ok":
            # soundness of the checker is C02's claim; C03 states completeness and principality only
            V.divergence("algorithm W finds no type but gluon accepts %s with %s" % (src.splitlines()[-1], g["type"]))
            continue
        if t["ok"]:
            c = wlib.canon_from_gluon(g["type"])
            if c is None:
                V.divergence("type outside the fragment's canonical form: %s" % g["type"][:100])
                continue
            if c != t["t"] and wlib.has_nested_forall(g["type"]) and wlib.erase_vars(c) == wlib.erase_vars(t["t"]):
                # gluon keeps quantifiers inside records / tuples / arguments (`{ x : forall a . Option a }`); the property
                # allows a different placement of quantifiers: such types are compared by structure only
                nested[0] += 1
            elif c != t["t"]:
                V.violation("not-principal:%s" % shape, "principal type %s, gluon reports %s (= %s)\n%s" % (wlib.show_type(t["t"]), g["type"], wlib.show_type(c), src), rep)
                continue
            variants.append((i, t, g["type"]))
        agree += 1
    # metamorphic variants of the typable, agreeing terms
    vs = variants if len(variants) <= (6000 if tier == "quick" else 60000) else rnd.sample(variants, 6000 if tier == "quick" else 60000)
    vjobs, vmeta = [], {}
    for i, t, gty in vs:
        body = wlib.render(t["p"]).split("\n", 1)[1].rstrip("\n")
        alts = {
            "rename": wlib.render(t["p"], names="zq"),
            "unused-binding": wlib.render(t["p"], extra_binding=True),
            "annotate": wlib.PREAMBLE + "(let annotated : %s = %s in annotated)\n" % (gty.replace("\n", " ").replace("std.types.", ""), body),
        }
        for kind, src in alts.items():
            j = {"id": len(vjobs), "src": src, "mode": "typecheck", "prelude": False}
            vmeta[j["id"]] = (kind, t, gty)
            vjobs.append(j)
    vres = vlib.run_pool(["lang"], vjobs, workers=14, job_timeout=30)
    vok = 0
    for j in vjobs:
        g = vres.get(j["id"])
        if g is None:
            continue
        kind, t, gty = vmeta[j["id"]]
        rep = {"p": t["p"], "src": j["src"], "model": t, "gluon": {k: g.get(k) for k in ("status", "type", "msg")}}
        if g["status"] != "ok":
            import re as _re
            detail = ":nested-forall" if wlib.has_nested_forall(gty) else (":unquantified-variable" if not gty.strip().startswith("forall") and _re.search(r"(?<![A-Za-z0-9_.])[a-z][a-z0-9]*(?![A-Za-z0-9_.]| *:)", gty) else "")
            V.violation("variant-rejected:%s%s" % (kind, detail), "the %s variant of an accepted term is rejected: %s\n%s" % (kind, g["msg"][:300], j["src"]), rep)
        elif wlib.canon_from_gluon(g["type"]) != t["t"] and not (wlib.has_nested_forall(g["type"]) and wlib.erase_vars(wlib.canon_from_gluon(g["type"]) or ["x"]) == wlib.erase_vars(t["t"])):
            V.violation("variant-changes-type:%s" % kind, "the %s variant has type %s instead of %s\n%s" % (kind, g["type"], gty, j["src"]), rep)
        else:
            vok += 1
    rc = V.finish()
    vlib.write_evidence(PID, tier, "model_checking", {
        "states": r.distinct, "transitions": r.generated, "traces_validated_against_impl": len(res) + len(vres),
        "samples": [{"src": jobs[i]["src"], "principal": wlib.show_type(ts[i]["t"]) if ts[i]["ok"] else "untypable"} for i in (0, len(ts) // 2, len(ts) - 1)],
        "evaluations": len(res) + len(vres), "distinct_nontrivial": len([t for t in ts if t["ok"] and len(t["p"]) > 1]),
        "terms": len(ts), "typable": len([t for t in ts if t["ok"]]), "agree": agree, "variants_checked": len(vres), "variants_ok": vok, "compared_by_structure_only_nested_quantifiers": nested[0],
        "rule": "closed untyped terms of the ML fragment enumerated by TLC (LangW.tla) with their principal type or `untypable`: the whole grammar up to %d nodes and focused production sets (match / lambda; let / record / application) up to 7-9 nodes, seeded samples of the largest sets; non-trivial = typable terms with more than one node; variants: renamed bound variables, an added unused binding, annotation with the reported type" % (5 if tier == "quick" else 6),
        "exhaustive": len(ts) == len(res), "known_findings_hit": {k: v[1] for k, v in V.known_hits.items()},
        "divergences": V.divergences[:10],
    }, ["LangW.tla is an independent implementation of algorithm W with presence types; records range over the labels {x, y} in canonical order",
        "gluon's checker runs with the implicit prelude off (`<` is the built-in #Int<)"], time.time() - t0, len(V.violations))
    return rc


def replay(path):
    d = json.load(open(path))["replay"]
    g = vlib.run_pool(["lang"], [{"id": 0, "src": d["src"], "mode": "typecheck", "prelude": False}], workers=1, job_timeout=30)[0]
    print(d["src"]); print("model:", d["model"]); print("gluon:", g["status"], g["type"], g["msg"][:300])
    t = d["model"]
    bad = (t["ok"] != (g["status"] == "ok")) or (t["ok"] and wlib.canon_from_gluon(g["type"]) != t["t"])
    if bad:
        print("VIOLATION property=%s replay=%s" % (PID, path)); return 1
    return 0

"""C09: the front end is total - any text yields a result or renderable errors.
Inputs: (a) every edit script of Mutate.tla (TLC: all single and double token edits over 12 abstract positions) applied
to valid base programs; (b) nesting templates; (c) seeded random bytes / token soups.  Every input is typechecked in an
isolated worker (a panic, abort, native stack overflow at moderate nesting or a hang is a violation); the events of
every run (begin, error with span, end) are validated by TLC against the acceptor Frontend.tla."""
import json, os, random, re, time
import vlib, langlib

PID = "C09"
TOKEN = re.compile(r'\s+|"(?:[^"\\\n]|\\.)*"|\'(?:[^\'\\\n]|\\.)\'|[A-Za-z_][A-Za-z0-9_\']*|\d+(?:\.\d+)?|[(){}\[\],]|[^\sA-Za-z0-9_(){}\[\],"\']+')

BASES_EXTRA = [
    "let f x y = x + y\nlet g = f 1\ng 2\n",
    "type T a = | Leaf | Node (T a) a (T a)\nrec let depth t =\n    match t with\n    | Leaf -> 0\n    | Node l _ r -> 1 + depth l\ndepth (Node Leaf 1 Leaf)\n",
    "let { map } = import! std.functor\nlet list @ { List, ? } = import! std.list\nmap (\\x -> x + 1) (Cons 1 Nil)\n",
    "let r = { x = 1, y = \"s\", f = \\a -> a }\nlet { x, y } = r\nif x == 1 then r.f y else \"t\"\n",
    "let io @ { ? } = import! std.io\nlet { wrap } = import! std.applicative\ndo x = wrap 1\nio.println \"a\"\n",
    "#[infix(left, 6)]\nlet (+++) a b = a + b\n1 +++ 2 +++ 3 // comment\n/* block */\n",
    "let x : Int = 'c'\nlet s = \"a\\n\\t\\\"b\"\n[1, 2, 3]\n",
]


def tokens(src):
    return TOKEN.findall(src)


def apply_script(src, script):
    toks = tokens(src)
    for op, slot in script:
        n = len(toks)
        if n == 0:
            break
        i = min(n - 1, (slot - 1) * n // 12)
        # act on a non-blank token near i
        j = i
        while j < n and toks[j].isspace():
            j += 1
        if j >= n:
            j = i
        if op == "delete":
            del toks[j]
        elif op == "duplicate":
            toks.insert(j, toks[j])
        elif op == "swap":
            k = j + 1
            while k < n and toks[k].isspace():
                k += 1
            if k < n:
                toks[j], toks[k] = toks[k], toks[j]
        elif op == "truncate":
            toks = toks[:j]
        elif op == "implicit":
            toks[j] = "?" + toks[j]
        elif op == "bang":
            toks[j] = toks[j] + "!"
        elif op in ("indent", "dedent"):
            text = "".join(toks)
            pos = len("".join(toks[:j]))
            ls = text.rfind("\n", 0, pos) + 1
            if op == "indent":
                text = text[:ls] + "  " + text[ls:]
            else:
                k = ls
                while k < len(text) and text[k] == " " and k - ls < 2:
                    k += 1
                text = text[:ls] + text[k:]
            toks = tokens(text)
    return "".join(toks)


def nesting(depth):
    d = depth
    return [("parens", "(" * d + "1" + ")" * d), ("lambdas", "".join("\\x%d -> " % i for i in range(d)) + "1"),
            ("lets", "".join("let x%d = %d in " % (i, i) for i in range(d)) + "1"), ("records", "{ a = " * d + "1" + " }" * d),
            ("arrays", "[" * d + "1" + "]" * d), ("apps", "f " + "(g " * d + "1" + ")" * d), ("ifs", "if True then " * d + "1" + " else 0" * d),
            ("operators", " + ".join(["1"] * (d + 1))), ("types", "let x : " + "Option (" * d + "Int" + ")" * d + " = x in x")]


def soups(rnd, n):
    words = ["let", "in", "rec", "type", "match", "with", "if", "then", "else", "do", "seq", "forall", "import!", "\\", "->", "=", "|", ":", ".", "..",
             "(", ")", "{", "}", "[", "]", ",", "x", "y", "Foo", "1", "2.5", "\"s\"", "'c'", "+", "<|", "#[attr]", "//c", "/*", "*/", "\n", "\n    ", "  ", "@", "?", "?x", "?Foo", "f!", "lift_io!", "_", "€", "é", "\t", "\"", "'", "\\n"]
    out = []
    for _ in range(n):
        k = rnd.randrange(1, 40)
        out.append(("soup", " ".join(rnd.choice(words) for _ in range(k))))
    for _ in range(n // 2):
        k = rnd.randrange(1, 200)
        b = bytes(rnd.randrange(256) for _ in range(k))
        out.append(("bytes", b.decode("utf-8", errors="replace")))
    return out


def run(tier):
    t0 = time.time()
    seed = vlib.seed()
    rnd = random.Random(seed)
    vlib.build_harness()
    V = vlib.Verdicts(PID)
    cfg = "SPECIFICATION Spec\nCONSTANTS\n  Slots = 12\n  MaxEdits = 2\n  Emit = TRUE\nINVARIANTS SmallEdit EmitScript\nCHECK_DEADLOCK FALSE\n"
    open(os.path.join(vlib.SPEC, "_c09.cfg"), "w").write(cfg)
    mt = vlib.run_tlc("Mutate", "_c09", workers=4, timeout=900, print_prefix='"EDIT"')
    os.remove(os.path.join(vlib.SPEC, "_c09.cfg"))
    scripts = sorted((s for s in (vlib.tlc_value_to_json(l) for l in mt.prints) if s), key=json.dumps)
    good, lr = langlib.corpus("c09base", 4, langlib.ALL_PRODS, roots=("I", "R"), rng_seed=seed, sample=6 if tier == "quick" else 40)
    bases = [langlib.render(o["p"]) for o in good] + BASES_EXTRA
    inputs = []
    singles = [s for s in scripts if len(s) == 1]
    doubles = [s for s in scripts if len(s) == 2]
    for b in bases:
        for s in singles:
            inputs.append(("mutant", apply_script(b, s)))
        for s in (rnd.sample(doubles, 250) if tier == "quick" else doubles):
            inputs.append(("mutant", apply_script(b, s)))
    for d in ([10, 100, 500] if tier == "quick" else [10, 50, 100, 200, 500, 1000, 2000]):
        for name, text in nesting(d):
            inputs.append(("nest-%s-%d" % (name, d), text))
    inputs += soups(rnd, 1500 if tier == "quick" else 40000)
    inputs += [("special", "'€'"), ("special", "\"\\q\""), ("special", "(\\v1 -> [(v1).x, v1])"), ("special", ""), ("special", "\n\n"), ("special", "let"), ("special", "6d"), ("special", "1e"), ("special", "0x"), ("special", "1.5q"),
               ("special", "type T a = | Leaf | Node (T a)  T a)\nrec let depth t =\n    match t with\n    | Leaf -> 0\n    | Node l _ r -> 1 + depth l\ndepth (Node Leaf 1 Leaf)\n")]
    seen, jobs = set(), []
    for kind, text in inputs:
        text = text[:4096]
        if text in seen:
            continue
        seen.add(text)
        jobs.append({"id": len(jobs), "src": text, "mode": "frontend", "kind": kind})
    vlib.log("[C09] %d edit scripts, %d base programs, %d inputs" % (len(scripts), len(bases), len(jobs)))
    res = vlib.run_pool(["lang"], [{k: v for k, v in j.items() if k != "kind"} for j in jobs], workers=14, job_timeout=30, env={"RUST_MIN_STACK": "8388608"})
    wd = vlib.workdir("c09")
    trace = os.path.join(wd, "trace.ndjson")
    nerr = ok = 0
    with open(trace, "w") as f:
        for j in jobs:
            r = res.get(j["id"])
            if r is None:
                continue
            rep = {"src": j["src"], "kind": j["kind"]}
            if r["status"] in ("panic", "crash", "hang"):
                m = re.search(r"panicked at ([^\s:]+:\d+)", r["msg"])
                where = r.get("panic_at") or (m.group(1) if m else ("stack-overflow" if "overflowed its stack" in r["msg"] or "stack overflow" in r["msg"] else r["msg"].strip()[:40]))
                if r["status"] == "crash" and not where:
                    where = "abort"
                nest = j["kind"].startswith("nest-")
                if nest and int(j["kind"].rsplit("-", 1)[1]) > 500 and r["status"] == "crash":
                    V.divergence("native stack exhausted at nesting %s (above the moderate bound of 500)" % j["kind"])
                    continue
                V.violation("%s:%s%s" % (r["status"], where, (":" + j["kind"].rsplit("-", 1)[0]) if nest else ""), "the front end %s on this input (%s): %s\n%s" % (r["status"], where, r["msg"][-300:], j["src"][:400]), rep)
                continue
            v = json.loads(r["value"])
            b = j["src"].encode("utf-8")
            f.write(json.dumps({"ev": "begin", "len": len(b)}) + "\n")
            unlocated = any(k in ("io", "vm", "other") for k in v["kinds"])
            for e in v["errors"]:
                inside = e["file"] == "prog"
                s_, e_ = e["start"], e["end"]
                boundary = True
                if inside:
                    for off in (s_, e_):
                        if 0 <= off < len(b) and (b[off] & 0xC0) == 0x80:
                            boundary = False
                    f.write(json.dumps({"ev": "error", "start": s_, "end": e_, "boundary": boundary}) + "\n")
                    nerr += 1
                    if not (0 <= s_ <= e_ <= len(b)) or not boundary:
                        V.violation("span:%s" % ("off-boundary" if not boundary else "outside-input"), "error span %d..%d of an input of %d bytes%s\n%s" % (s_, e_, len(b), "" if boundary else " (not on a character boundary)", j["src"][:300]), dict(rep, error=e))
                else:
                    unlocated = True        # the error is located in another file (an imported module)
            f.write(json.dumps({"ev": "end", "result": v["result"], "rendered": bool(v["rendered"]), "unlocated": unlocated}) + "\n")
            if v["result"] == "err" and not v["rendered"]:
                V.violation("not-renderable", "the errors of this input cannot be rendered\n%s" % j["src"][:300], rep)
            if v["result"] == "err" and not v["errors"] and not unlocated:
                V.violation("error-without-diagnostics", "the front end failed without any located error\n%s" % j["src"][:300], rep)
            ok += 1
    tv = vlib.run_tlc("Frontend", "Trace_Frontend", workers=1, timeout=1200, env={"TRACE": trace}, dfs=True, xss="1g", xmx="4g")
    if tv.violation and not V.violations:
        V.violation("trace-rejected", "Frontend.tla rejects the recorded events: %s" % tv.out[-400:], {})
    rc = V.finish()
    vlib.write_evidence(PID, tier, "exploration", {
        "evaluations": len(res), "distinct_nontrivial": len(jobs), "accepted_runs": ok, "error_events": nerr, "trace_accepted_by_tlc": tv.violation is None,
        "edit_scripts": len(scripts), "base_programs": len(bases),
        "rule": "TLC-enumerated edit scripts (Mutate.tla: delete / duplicate / swap / truncate / re-indent at 12 abstract positions, all single edits and %s double edits) applied to %d valid programs, nesting templates of depth 10-%d, seeded token soups and random bytes; distinct inputs after deduplication" % ("sampled" if tier == "quick" else "all", len(bases), 500 if tier == "quick" else 2000),
        "samples": [jobs[0]["src"][:200], jobs[len(jobs) // 2]["src"][:200]],
        "known_findings_hit": {k: v[1] for k, v in V.known_hits.items()}, "divergences": V.divergences[:10],
    }, ["the isolated worker's exit status / signal is the observation for panics and native stack exhaustion (8 MB stack)",
        "random bytes come from a seeded generator, not from TLC"], time.time() - t0, len(V.violations))
    return rc


def replay(path):
    d = json.load(open(path))["replay"]
    r = vlib.run_pool(["lang"], [{"id": 0, "src": d["src"], "mode": "frontend"}], workers=1, job_timeout=30, env={"RUST_MIN_STACK": "8388608"})[0]
    print(d["src"][:500]); print(json.dumps(r)[:800])
    if r["status"] in ("panic", "crash", "hang"):
        print("VIOLATION property=%s replay=%s" % (PID, path)); return 1
    return 0

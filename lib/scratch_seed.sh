#!/bin/bash
# usage: scratch_seed.sh <scratch dir> <seed dir name | -> <check id> [<check id> ...]
# Tries a seeded change WITHOUT touching /repo or the committed evidence: a worktree of /repo's HEAD and a copy of the
# harness pointed at it live under <scratch dir> (outside /repo and /verif; remove it afterwards with
# `git -C /repo worktree remove --force <scratch>/repo; rm -rf <scratch>`).  "-" = no seed (control run).
S=$1; SEED=$2; shift 2
mkdir -p $S
if [ ! -d $S/repo ]; then git -C /repo worktree add --detach $S/repo HEAD -q || exit 2; fi
git -C $S/repo checkout -q --detach $(git -C /repo rev-parse HEAD) && git -C $S/repo checkout -q -- . || exit 2
mkdir -p $S/harness
rsync -a --delete --exclude target /verif/harness/ $S/harness/
sed -i "s#\"/repo#\"$S/repo#g" $S/harness/Cargo.toml
OUT=$S/result-$SEED.txt
if [ "$SEED" != "-" ]; then
  git -C $S/repo apply /verif/seeded/$SEED/patch.diff || { echo "PATCH DOES NOT APPLY" > $OUT; exit 1; }
fi
{
echo "seed $SEED applied to a scratch worktree of /repo at $(git -C /repo rev-parse --short HEAD) on $(date -u +%FT%TZ)"
for c in "$@"; do
  echo "== ./check $c --tier quick"
  (cd /verif && VERIF_SCRATCH=$S ./check $c --tier quick 2>&1 | grep -E "^VIOLATION|^  key=|rc=|ToolError" | head -14)
done
} > $OUT 2>&1
git -C $S/repo checkout -q -- .
[ "$SEED" != "-" ] && cp $OUT /verif/seeded/$SEED/sweep.txt
exit 0

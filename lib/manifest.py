#!/usr/bin/env python3
"""Regenerates /verif/MANIFEST.json from the table below (single source of truth for the registered checks)."""
import json, os, subprocess
V = os.path.dirname(os.path.dirname(os.path.abspath(__file__)))
props = [json.loads(l) for l in open(os.path.join(V, "properties.jsonl"))]

CHECKS = {
 "C17": dict(
   level="model_checking",
   text="Conc.tla (channels, references, lazies, green threads; one action per std primitive) is model-checked exhaustively to 7 steps for FIFO-exactly-once, non-blocking recv, last-write, force-once, force-errors and no-hang; every TLC walk (all walks of 4 steps, seeded random walks of 10 / 30 steps) is replayed into the real VM as a generated gluon program and the observation of every step is compared with the model's. Right level: the primitives are small shared state machines whose contract is about all interleavings.",
   design="5 (C17), 4.4",
   note="trusts the projection (host log of every observation and thunk run), cooperative scheduling on one OS thread, and Conc.tla with Ideal=TRUE as the contract; walks with resume of a thread that died with an error are unspecified by the property and not replayed here (C06 covers crashes)",
   technique="TLC model checking of Conc.tla + replay of TLC walks into the VM (spec->impl conformance)"),
 "C13": dict(
   level="model_checking",
   text="Heap.tla (thread tree, per-thread heaps, deep clone with the generation short-cut, cells, channels, host moves between related / sibling / unrelated threads and a second VM, collection, VM drop) is model-checked per transfer route for Isolation, NoDangling, CloneFaithful and CollectExact; TLC walks are executed on real VMs and after every step the real object graph (structure, sharing, owning heap of every object, owner of every cell, freed flags) is compared with the model state, and every pointer edge Trace reaches is checked against the real heap tree. Spec mutants (no full clone for unrelated threads, store without clone, spawn_on) are rejected by the invariants.",
   design="5 (C13), 4.2",
   note="trusts the projection hooks (heap id / freed flag in the GC header, read-only accessors of cells and queues) and the harness' structural traversal; closures / arrays as value shapes are exercised by the program-level checks, the Heap walks use records, cells and channel ends",
   technique="TLC model checking of Heap.tla + step-by-step replay of TLC walks on real VMs with graph-isomorphism and heap-ownership comparison"),
 "C05": dict(
   level="model_checking",
   text="Heap.tla is model-checked for NoDangling and CollectExact (a collection frees exactly the unreachable objects of the swept heaps); TLC walks with collections placed by the model at every position are executed on real VMs, additionally under collect-at-every-allocation, with freed blocks quarantined and poisoned: every object the model says is reachable must be intact and every object it says was reclaimed must be flagged freed after the collection. Collect is one atomic step for the whole subtree in the model (the spec mutant `sweepgap` - a descendant allocates between being marked and being swept - is rejected by NoDangling); its conformance side is the parent-collects scenario: the root collects in a loop while 2-4 children compute on their own OS threads, results compared with the closed form.",
   design="5 (C05), 4.2",
   note="trusts the GC header hooks (freed flag, quarantine) and that quarantine does not change reachability; program-level GC-stress replay of the Lang corpus is part of the C01 family of checks",
   technique="TLC model checking of Heap.tla + replay of TLC walks under forced GC schedules with freed-block poisoning"),
 "C01": dict(
   level="model_checking",
   text="Lang.tla is a type-directed generator of closed well-typed programs (closures, partial and over-application, recursive functions, records incl. update, tuples, variants, arrays, nested / literal / partial patterns, short-circuit operators, 64-bit overflow through a symbolic integer domain, host effects) together with the documented strict semantics as a recursive evaluator; TLC checks the model's own type soundness on every generated program and emits (program, outcome, effect log); each program is run through the real pipeline with optimisation off and on and value / failure class / effect log are compared. Exhaustive to AST size 4-5 for the whole grammar, 6-7 for focused production sets, random deeper programs by TLC simulation.",
   design="5 (C01), 4.8",
   note="the model is the oracle: its evaluation order and failure classes were calibrated against the book and probes; do/seq blocks and implicit-argument dispatch beyond the prelude's overloaded operators are not generated; programs whose exact result leaves the symbolic integer domain are not emitted",
   technique="TLC enumeration + in-model evaluation (Lang.tla), replay of every behaviour into the real compiler+VM"),
 "C04": dict(
   level="model_checking",
   text="Same generator, restricted to programs with host effects or dead bindings (let _ = e, unused let, transitively unused, unused field of a fresh record, unused component of a fresh tuple). OptModel in Lang.tla computes the outcome of dropping every closed subset of the dead bindings; each program is compiled with optimisation off and on and the optimised run must equal the model, or differ only by a dropped binding whose right-hand side is built-in arithmetic.",
   design="5 (C04), 4.8",
   note="effects are observed as the ordered log of host.eff calls (identifier callee and module-field callee); the model decides which differences are explained by dropping which bindings",
   technique="TLC enumeration + OptModel (Lang.tla), differential replay optimize on/off against the model"),
 "C12": dict(
   level="model_checking",
   text="The Lang.tla corpus is compiled to bytecode (serde_json), loaded back in the same VM and in another / fresh VM and run; outcome and effect log must equal the direct run. Fault enumeration on the serialised modules: truncation at structural boundaries, deleted keys and renamed string references must be refused with an error, never a crash or hang.",
   design="5 (C12)",
   note="serde_json is the format exercised; the dependencies of a module (imports) are loaded into the fresh VM before its bytecode; a damaged module that still loads is not judged",
   technique="TLC-generated corpus (Lang.tla) + differential replay source vs bytecode + fault enumeration on the serialised form"),
 "C02": dict(
   level="model_checking",
   text="Programs: the well-typed Lang.tla corpus, the Retype mutants of Lang.tla (a hole silently changes its expected type; the real checker decides whether to accept), annotation-dropping variants, and multi-module programs (plain and IO-typed imported module). Every accepted program is compiled and run under a pairwise covering array (quick) or all 32 combinations (thorough) of the five compiler settings; the ML-fragment terms of LangW.tla and its generalisation-sensitive skeleton family `(\\x -> let g = \\y -> H in K) A` (TLC enumerates the fillers of H, K, A; all ~36 000 members run) are included; no run may end in an internal compiler error, a VM shape complaint or a host panic, and the returned value must have the shape of the reported type (checked by an independent shape checker over the printed type).",
   design="5 (C02)",
   note="the oracle for mutants is the property itself (accepted => does not go wrong); value shapes are judged for Int, Bool, Option, records, tuples, arrays, functions and the generated list type",
   technique="TLC generator with type-confusing mutation (Lang.tla PRetype) + replay under setting combinations"),
 "C16": dict(
   level="model_checking",
   text="Session.tla is a determinism monitor: the observation of a source (value rendering, type text, diagnostics text, effect log) is bound at its first evaluation and must be equal at every later one. TLC generates histories (which source on which of 3 VMs in which order); the harness runs them with fresh VMs per history in separate worker processes, plus two fresh-process observations of every source; all events are validated against Trace_Session.tla by TLC (postcondition on the consumed trace length). Scheduling dimension: Imports.tla (the import tasks of a module finish in any order; the reported errors must be in source order; the `arrival` variant is rejected) - every completion order of 3 imports x every subset of broken modules x 2 module shapes is replayed on a VM whose spawner is a deterministic executor following that order, and the diagnostics must be identical.",
   design="5 (C16), 4.10",
   note="observations are compared through a 30-bit hash inside the trace (collisions would hide a difference with probability 2^-30 per pair) and in full for the explanation; sources: Lang.tla programs, ill-typed mutants, std-using and erroneous hand-written programs",
   technique="TLC-generated histories + trace validation of recorded sessions against Session.tla"),
 "C06": dict(
   level="model_checking",
   text="(a) Prims.tla: the domain contract of the exported primitives - for every primitive (table read from the running VM) x every tuple of boundary values of its argument types the outcome is a value or an error; TLC enumerates the product, every call runs in an isolated worker process where an abort / signal / hang is data. (b) Session.tla usability monitor: all histories of 3-4 evaluations over 9 program classes (ok, explicit error, overflow, unmatched pattern, type error, failing primitive, failing import, deep failure) on one VM plus simulated longer ones; every evaluation is a trace event (observation hash, frames, stack length) validated by TLC against Trace_Session.tla: back at base after every evaluation, same answer as a fresh VM. (c) deep-data / deep-recursion / dead-green-thread scenarios in isolated workers.",
   design="5 (C06), 4.10",
   note="primitives with side effects on the sandbox (io, fs, process, http, sleep) are not called; the harness builds gluon with the dev profile (overflow checks on), as the repository's own tests do",
   technique="TLC enumeration of the primitive contract (Prims.tla) + trace validation of sessions (Session.tla) in crash-isolating workers"),
 "C07": dict(
   level="model_checking",
   text="MemLimit.tla (allocation accounting contract; an as-coded variant of the guard described the overshoot by less than one header which was repaired in /repo, see known_findings.json fixed) and VMFrames.tla (frame shape machine: stack limit tested at every entry, DepthBound - the compile-time max_stack_size bounds a frame's growth -, TailCallNoGrowth, OffsetsMonotone) are model-checked; TailCtx.tla enumerates all compositions of tail-position contexts (if/match/let/rec-let bodies, && and || right operands) x loop shapes (direct, mutual, through a closure, over-application). Binding: every loop runs 60 iterations with frame events validated by TLC against Trace_VMFrames.tla and 10^3 / 10^5 iterations under a 4096-slot limit (peak stack must not grow); non-tail recursion x stack limits (value or StackOverflow, never a crash, peak <= limit); allocation templates x memory limits with gc events validated against Trace_MemLimit.tla (contract and as-coded variants); an interrupt from another OS thread must stop a spinning program.",
   design="5 (C07), 4.3, 4.7",
   note="events come from the hooks in stack.rs / thread.rs / gc.rs; the transient placement of a tail call's arguments above the popped frame is exempt from DepthBound; native-stack exhaustion is observed as a signal of the isolated worker",
   technique="TLC model checking (MemLimit, VMFrames, TailCtx) + trace validation of recorded frame / gc events + limit sweeps"),
 "C03": dict(
   level="model_checking",
   text="LangW.tla is algorithm W written in TLA+ (substitutions, occurs check, let-generalisation, Remy-style presence types for records over {x, y}); TLC enumerates every closed untyped term of the ML fragment (lambda, application, let, if, match on Option, tuples, records, field access, None/Some, arrays) up to 5-6 nodes and focused production sets up to 7-9 nodes and computes `untypable` or the principal type in canonical form. Each term is typechecked by gluon: a typable term must be accepted and the reported type must equal the principal type up to renaming and placement of quantifiers; renaming bound variables, adding an unused binding and annotating with the reported type must not change acceptance or type.",
   design="5 (C03), 4.8",
   note="types in which gluon keeps quantifiers inside records / tuples are compared by structure only (the property allows a different placement of quantifiers); acceptance of untypable terms and crashes on untypable terms are recorded as divergences (they are C02's and C09's claims)",
   technique="algorithm W in TLA+ evaluated by TLC over an exhaustive term enumeration + replay into the real checker with metamorphic variants"),
 "C15": dict(
   level="model_checking",
   text="Modules.tla models module sources, versions, the memo discipline of the incremental database and the reference `Answer` (what a fresh VM answers: value, cycle error, missing module, type error in the first ill-typed module); TLC checks NeverStale (memo answer = fresh answer) exhaustively for 2 modules and rejects a memo that skips one dependency. TLC-generated edit histories (edits incl. re-registration of identical text, evaluations; all 3-4 step histories over 2 modules, simulated 8-step histories over 3 modules) are replayed on one long-lived VM: after every import the value / error kind and the set of module bodies that ran (host.tick) are compared with the model, which also bounds what may run without a source change (EvalOnce).",
   design="5 (C15), 4.5",
   note="module bodies report their evaluation through a host function; edits go through add_module, evaluations through `import! m`; the VM reports all failing imports where the model names the first",
   technique="TLC model checking of Modules.tla + replay of TLC-generated edit histories against the model's fresh-VM answer and evaluation bounds"),
 "C08": dict(
   level="model_checking",
   text="Infix.tla transcribes the shift/reduce machine of parser/src/infix.rs and defines grouping declaratively (split at the lowest precedence; one associativity per level or conflict); TLC proves Machine = Group for every chain up to 4-6 operators over a table with two operators per (precedence, associativity) and over the built-in table. Every chain is replayed through the real parser (#[infix] declarations / primitive operators), grouping observed through evaluation. Round trip: Lang.tla programs printed in three concrete styles must parse to the same tree (AST dumps normalised: positions, symbol addresses, redundant parentheses) and literal / identifier spans must delimit their text.",
   design="5 (C08), 4.9",
   note="Layout.tla (a transcription of the layout algorithm) was not built: offside layout is exercised through the multi-line match alternatives of every style; grouping is observed by evaluation rather than by inspecting the tree",
   technique="TLC equivalence check machine vs declarative grouping (Infix.tla) + exhaustive replay of chains + style round trips"),
 "C18": dict(
   level="model_checking",
   text="TypeSyntax.tla enumerates type ASTs and contains a precedence-aware printer and a recursive-descent recogniser for the core grammar (atoms, application, arrows, forall): TLC checks Parse(Print(t)) = t for every core type up to 5-7 nodes. Every enumerated type (core + implicit arguments, tuples, closed / open records, variants, forall) is built as a real ArcType, rendered at widths 20, 40, 80, 120, 200, parsed back by the real parser and compared structurally.",
   design="5 (C18), 4.9",
   note="type fields, effect rows, GADT-style constructors and operator names are not generated; comparison is by an s-expression over Type<Id, T>",
   technique="TLC check of printer/recogniser round trip (TypeSyntax.tla) + replay of every enumerated type through the real printer and parser at several widths"),
 "C14": dict(
   level="model_checking",
   text="Locks.tla gives the acquire / release sequence of each public operation (run, collect with mark_child_roots, push of a rooted value, new_thread, import) and TLC reports cyclic waits: the sibling-thread scenario is free of them, the parent-collection vs push-onto-child scenario has one (reproduced on the VM). ModulesPar.tla: racing requesters evaluate every module body at most once and everyone is served (TLC incl. liveness). Binding: stress rounds with 2-16 OS threads each compiling and running programs on its own child thread of one VM (overlapping imports of tick-reporting modules, allocation, channels, maps, lazies; gc forced at every 1st / 3rd allocation check in part of the rounds, freed blocks poisoned): results must equal the solo results, every module body runs at most once, nothing freed is reachable afterwards; parent-collects rounds (the root collects in a loop while 2-4 children build and sum lists on their own OS threads, calling a primitive per iteration) must give the closed-form result; hangs / crashes count when they reproduce.",
   design="5 (C14), 4.6",
   note="OS-thread interleavings are sampled, not enumerated (the sync-point hooks H9 of the design were not built); verdicts about hangs and crashes require reproduction with the same programs",
   technique="TLC model checking of Locks.tla and ModulesPar.tla + randomized parallel stress compared with solo runs (spec-predicted deadlock scenario replayed under a watchdog)"),
 "C09": dict(
   level="exploration",
   text="Thin use of the family: Mutate.tla enumerates every edit script (delete / duplicate / swap / truncate / re-indent / make-implicit-argument / make-macro-name at 12 abstract positions, single and double edits) which the harness applies to valid base programs; nesting templates (depth 10-2000) and seeded token soups / random bytes complete the inputs. Each input is typechecked in an isolated worker (panic, abort, native stack overflow at nesting <= 500, hang = violation) and the events of every run (begin, error with span, end) are validated by TLC against the acceptor Frontend.tla (spans inside the input on character boundaries, errors renderable, a failing run has diagnostics).",
   design="5 (C09), 4.10",
   note="the raw-byte inputs come from a seeded generator, not from TLC; findings are keyed by panic location",
   technique="TLC-enumerated mutation scripts + seeded random inputs, crash-isolating workers, trace validation against the Frontend.tla acceptor"),
 "C11": dict(
   level="exploration",
   text="Marshal.tla models the boundary as functions over abstract values: Rep (the VM representation Pushable must build = what compiled Gluon code observes), Get (its inverse), SerRep (the serde bridge; 'faithful' = the property, 'coded' = ser.rs as written) and the signature-compatibility relation, over 61 Rust types closed under Option / Result / Vec / tuple / BTreeMap / derived struct and enum to nesting depth 3 with boundary atoms. TLC checks round trip, injectivity, signature soundness (and that the bridge as coded is NOT faithful / injective) and emits every (type, value) and (Rust type, global) case; the harness replays each through five routes on a real VM - Pushable + projection of the VM value + Getable, a Gluon identity function, the value compiled from the Gluon literal, Ser -> De directly and through a function - and requests every global at every Rust type. The thorough tier re-instantiates the atoms with seeded random values (ints, float bit patterns, code points, strings).",
   design="5 (C11)",
   note="the Rust types are a fixed table of monomorphic instantiations in the harness; values containing std.map trees are compared by meaning, not representation; () is one observation (Tag 0 = Int 0)",
   technique="TLC evaluation of the representation functions and laws of Marshal.tla + replay of every emitted case on a real VM with the VM value projected back into the model's terms"),
 "C10": dict(
   level="exploration",
   text="Thin use of the family: the acceptor Format.tla states the four preservation clauses (same tree, same comments in order, literals byte for byte, idempotent); inputs are Lang.tla programs in three concrete styles and every .glu file of std, tests/pass and examples, plain and under whitespace perturbation (CRLF, trailing blanks, doubled blank lines); each record (trees of input and output normalised without positions / symbol counters / redundant parentheses, comment and literal sequences, second formatting) is validated by TLC against Format.tla.",
   design="5 (C10), 4.9",
   note="comments are compared as whitespace-normalised text; the widths of the formatter are not varied (Formatter::default)",
   technique="TLC-generated programs x styles + repository files, trace validation of formatter records against the Format.tla acceptor"),
 "C20": dict(
   level="exploration",
   text="Thin use of the family: Lang.tla programs (complete, and with one Mutate.tla edit - a deleted token or a truncation - when the result still typechecks) are queried at every byte offset with type-at-position, completion, signature help, metadata and symbol listing; no query may panic; at every variable occurrence the reported type must be the type Lang.tla's typing gives that variable and every suggested local name must be one of the binders Lang.tla has in scope there. The per-program records are validated by TLC against the acceptor Editor.tla.",
   design="5 (C20), 4.10",
   note="inputs the checker rejects are not queried (the salvaged tree is not reachable through the API used); expected types come from the generator's monomorphic typing",
   technique="TLC-generated typed programs with known scopes and types + exhaustive cursor positions, records validated against the Editor.tla acceptor"),
 "C19": dict(
   level="exploration",
   text="Thin use of the family: StdModels.tla defines the models (finite map ordered by key with insert / find / to_list; sort, filter, fold, append on sequences via SequencesExt / Folds; byte length and character boundaries of strings over a 4-code-point alphabet with UTF-8 lengths 1-4), TLC enumerates all operation sequences / inputs up to a bound, checks model-level laws and computes the expected results; every case runs through std.map, std.list, std.array, std.string. Derived Eq / Show and the JSON codec are exercised on seeded random algebraic values and records (round trip = identity).",
   design="5 (C19), 4.10",
   note="the derived Show parenthesises every constructor argument; renderings are compared modulo parentheses; JSON and derive cases come from a seeded generator, not from TLC",
   technique="TLC enumeration with in-model expected results (StdModels.tla) + replay through the std library"),
}
NOT_BUILT = "check not built yet (work in progress; see DESIGN.md section 5)"
NA = {}

def main():
    hooks = subprocess.run(["git", "-C", "/repo", "log", "--format=%H %s"], stdout=subprocess.PIPE, text=True).stdout.splitlines()
    hook_commits = [l.split()[0] for l in hooks if "verif hooks" in l]
    m = {"version": 1,
         "setup_cmd": "cd /verif/harness && cargo build --offline",
         "hooks": {"guard": "gluon_verif",
                   "enable": "rustflags --cfg gluon_verif in /verif/harness/.cargo/config.toml (the harness crate has path dependencies on /repo, so every check rebuilds gluon from /repo's working tree with hooks on)",
                   "baseline_off_cmd": "cd /repo && cargo nextest run --workspace --no-fail-fast --tool-config-file pb:/w/lib/nextest.toml --profile pb --test-threads 8 --offline || cargo test --workspace --no-fail-fast --offline",
                   "source_commits": hook_commits, "add_only": True},
         "engines": [{"name": "tlc", "path": "/opt/veriftools/tla/tla2tools.jar", "serves_properties": sorted(CHECKS), "kind_free_text": "explicit-state model checker for the TLA+ specs in /verif/spec"},
                     {"name": "gvh", "path": "/verif/harness", "serves_properties": sorted(CHECKS), "kind_free_text": "Rust conformance harness (replays TLC behaviours into gluon, records traces from gluon)"}],
         "checks": [], "not_applicable": []}
    for p in props:
        pid = p["id"]
        if pid in CHECKS:
            c = CHECKS[pid]
            m["checks"].append({"property_id": pid,
                                "quick_cmd": "./check %s --tier quick" % pid,
                                "thorough_cmd": "./check %s --tier thorough" % pid,
                                "evidence_file": "/verif/evidence/%s.json" % pid,
                                "replay_cmd_template": "./check %s --replay {path}" % pid,
                                "engine": "tlc+gvh",
                                "level_claimed": {"category": c["level"], "text": c["text"], "design_ref": c["design"]},
                                "level_note": c["note"], "technique": c["technique"]})
        else:
            m["not_applicable"].append({"property_id": pid, "reason": NA.get(pid, NOT_BUILT)})
    json.dump(m, open(os.path.join(V, "MANIFEST.json"), "w"), indent=1)

if __name__ == "__main__":
    main()

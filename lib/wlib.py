"""LangW.tla terms -> gluon source; gluon type text -> the canonical form of LangW's principal types."""
import re
import langlib

ARITY = {"var": 0, "int": 0, "str": 0, "tt": 0, "none": 0, "lam": 1, "recx": 1, "px": 1, "py": 1, "some": 1,
         "app": 2, "let": 2, "tup": 2, "recxy": 2, "arr2": 2, "lt": 2, "if": 3, "mopt": 3}
ALL = sorted(ARITY)
PREAMBLE = "let { Bool, Option } = import! std.types\n"


def parse(p, i=0):
    g, a = p[i]
    kids, j = [], i + 1
    for _ in range(ARITY[g]):
        k, j = parse(p, j)
        kids.append(k)
    return (g, a, kids), j


def render(p, names="v", extra_binding=False):
    tree, _ = parse(p)
    body = _r(tree, 0, names)
    if extra_binding:
        body = "(let unused = 0 in %s)" % body
    return PREAMBLE + body + "\n"


def _r(n, d, nm):
    g, a, k = n
    R = lambda x, dd=d: _r(x, dd, nm)
    if g == "var":
        return "%s%d" % (nm, a)
    if g == "int":
        return "1"
    if g == "str":
        return "\"s\""
    if g == "tt":
        return "True"
    if g == "none":
        return "None"
    if g == "lam":
        return "(\\%s%d -> %s)" % (nm, d + 1, _r(k[0], d + 1, nm))
    if g == "app":
        return "(%s %s)" % (R(k[0]), R(k[1]))
    if g == "let":
        return "(let %s%d = %s in %s)" % (nm, d + 1, R(k[0]), _r(k[1], d + 1, nm))
    if g == "if":
        return "(if %s then %s else %s)" % (R(k[0]), R(k[1]), R(k[2]))
    if g == "mopt":
        # alternatives on their own lines, deeper than any enclosing binding on this line (see langlib renderer)
        ind = " " * (4 + 4 * d + 40)
        return "(match %s with\n%s| Some %s%d -> %s\n%s| None -> %s)" % (R(k[0]), ind, nm, d + 1, _r(k[1], d + 1, nm), ind, R(k[2]))
    if g == "lt":
        return "(%s #Int< %s)" % (R(k[0]), R(k[1]))
    if g == "tup":
        return "(%s, %s)" % (R(k[0]), R(k[1]))
    if g == "recx":
        return "{ x = %s }" % R(k[0])
    if g == "recxy":
        return "{ x = %s, y = %s }" % (R(k[0]), R(k[1]))
    if g == "px":
        return "(%s).x" % R(k[0])
    if g == "py":
        return "(%s).y" % R(k[0])
    if g == "some":
        return "(Some %s)" % R(k[0])
    if g == "arr2":
        return "[%s, %s]" % (R(k[0]), R(k[1]))
    raise ValueError(g)


def canon_from_gluon(type_text):
    """gluon's printed type -> LangW canonical form (variables numbered by first occurrence); None if not in the fragment"""
    try:
        ty = langlib._parse_type(type_text.replace("\n", " "))
    except Exception:
        return None
    names = {}
    scopes = []          # renamings of variables bound by nested foralls (placement of quantifiers is free)
    counter = [0]
    def var(n):
        for sc in reversed(scopes):
            if n in sc:
                n = sc[n]
                break
        if n not in names:
            names[n] = len(names) + 1
        return ["v", names[n]]
    def conv(t):
        k = t[0]
        if k == "forall":
            counter[0] += 1
            scopes.append({v: "%s#%d" % (v, counter[0]) for v in t[1]})
            try:
                return conv(t[2])
            finally:
                scopes.pop()
        if k == "fn":
            a = conv(t[1]); b = conv(t[2])
            return ["fun", a, b]
        if k == "tuple" and len(t[1]) == 2:
            a = conv(t[1][0]); b = conv(t[1][1])
            return ["tup", a, b]
        if k == "id":
            n = t[1].split(".")[-1]
            if n == "Int":
                return ["int"]
            if n == "String":
                return ["str"]
            if n == "Bool":
                return ["bool"]
            if re.match(r"^[a-z]", t[1]):
                return var(t[1])
            raise ValueError(n)
        if k == "app" and t[1][0] == "id" and len(t[2]) == 1:
            n = t[1][1].split(".")[-1]
            if n == "Option":
                return ["opt", conv(t[2][0])]
            if n == "Array":
                return ["arr", conv(t[2][0])]
            raise ValueError(n)
        if k == "record":
            fields = dict(t[1])
            tail = t[2] if len(t) > 2 else None
            if set(fields) - {"x", "y"}:
                raise ValueError("field")
            slots = []
            for f in ("x", "y"):
                if f in fields:
                    slots.append(["pre", conv(fields[f])])
                elif tail is not None:
                    slots.append(var(tail))
                else:
                    slots.append(["abs"])
            return ["rec", slots[0], slots[1]]
        raise ValueError(k)
    try:
        return conv(ty)
    except Exception:
        return None


def has_nested_forall(type_text):
    t = type_text.replace("\n", " ").strip()
    t2 = re.sub(r"^forall [^.]*\. ", "", t)
    return "forall" in t2


def erase_vars(t):
    """structure of a canonical type with all variables made anonymous"""
    if t[0] == "v":
        return ["v", 0]
    return [t[0]] + [erase_vars(x) for x in t[1:]]


def show_type(t):
    k = t[0]
    if k == "v":
        return "t%d" % t[1]
    if k in ("int", "str", "bool", "abs"):
        return k
    if k == "fun":
        return "(%s -> %s)" % (show_type(t[1]), show_type(t[2]))
    if k == "tup":
        return "(%s, %s)" % (show_type(t[1]), show_type(t[2]))
    if k in ("opt", "arr", "pre"):
        return "%s(%s)" % (k, show_type(t[1]))
    if k == "rec":
        return "{x:%s, y:%s}" % (show_type(t[1]), show_type(t[2]))
    return str(t)

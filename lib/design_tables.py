#!/usr/bin/env python3
"""Regenerates the two findings tables of DESIGN.md section A.3 from known_findings.json."""
import json, re
k = json.load(open('/verif/known_findings.json'))
lines = ["| property | key (prefix) | summary |", "|---|---|---|"]
for f in sorted(k['findings'], key=lambda f: f['property']):
    s = f['summary']
    s = s if len(s) < 420 else s[:417] + '...'
    lines.append("| %s | `%s` | %s |" % (f['property'], f['key'][:60].replace('|', '\\|') + ('…' if len(f['key']) > 60 else ''), s.replace('|', '\\|').replace('\n', ' ')))
fixed = ["| property | commit | what failed |", "|---|---|---|"]
for x in k['fixed']:
    m = re.match(r'fixed: property=(C\d+) (\w+) (.*)', x)
    fixed.append("| %s | %s | %s |" % (m.group(1), m.group(2), m.group(3).replace('|', '\\|')))
d = open('/verif/DESIGN.md').read()
def put(d, name, rows):
    a = d.index("<!-- %s-BEGIN -->" % name) + len("<!-- %s-BEGIN -->" % name)
    b = d.index("<!-- %s-END -->" % name)
    return d[:a] + "\n" + "\n".join(rows) + "\n" + d[b:]
d = put(d, "FIXED-TABLE", fixed)
d = put(d, "OPEN-TABLE", lines)
rows = json.load(open('/verif/seeded/index.json'))
d = put(d, "SEEDS-TABLE", ["| seed | change | caught by | remark |", "|---|---|---|---|"] + ["| %s | %s | %s | %s |" % (r["seed"], r["change"], r["caught_by"], r["remark"]) for r in rows])
open('/verif/DESIGN.md', 'w').write(d)
print(len(k['findings']), "open,", len(k['fixed']), "fixed")

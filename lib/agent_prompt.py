#!/usr/bin/env python3
"""Prints the prompt handed to a mutation sub-agent for property <id> (property text only, nothing from /verif)."""
import json,sys
pid=sys.argv[1]
for l in open('/verif/properties.jsonl'):
    p=json.loads(l)
    if p['id']==pid: break
wt=f"/tmp/wt-{pid}"
print(f"""You are helping to test a verification effort for the open-source project gluon-lang/gluon (a statically typed embeddable functional language implemented in Rust: parser, typechecker, core IR optimizer, bytecode compiler, VM, per-thread GC).

You have your own scratch git worktree of the repository at {wt} (a detached checkout; build there with `cargo ... --offline`; there is NO network; set CARGO_TARGET_DIR={wt}/target so you do not touch any other build directory). Work ONLY inside {wt}. Never touch /repo or /verif and do not read anything under /verif.

The semantic property under study:

  id: {p['id']}
  title: {p['title']}
  statement: {p['statement']}
  quantified over: {p['quantifier']['text']}
  why the existing tests cannot settle it: {p['why_tests_cant']}
  code it is anchored in: {', '.join(p['anchors']['files'])}

Your task: produce ONE realistic change to the gluon source code (the kind of bug a maintainer could plausibly introduce in a refactoring or optimisation: a dropped step, an off-by-one, a wrong comparison, a missing clone / root / invalidate, a reordered pair of statements, two sites that each look fine alone) that BREAKS this property while the code still COMPILES and the EXISTING test suite still PASSES. The change must need something specific to manifest - a particular interleaving, a fault or error at a particular point, a multi-step sequence of operations, an unusual input, or two cooperating sites - i.e. NOT something that ordinary use or the existing tests expose at once. Keep the change small (a few lines, source files only, no test files, no Cargo changes).

Deliver, in {wt}/seed_out/ :
  1. patch.diff      - `git diff` of your source change only (must apply with `git apply` to a clean checkout of the same commit).
  2. a demonstration - either a Rust integration test file (say demo.rs, to be dropped into {wt}/tests/ and run with `cargo test --offline --test demo`; note the root Cargo.toml may need features e.g. `--features serialization`; say so) or a small program, which FAILS with your change applied and PASSES without it. Keep it self-contained.
  3. meta.json       - {{"property": "{p['id']}", "summary": what you changed and why it breaks the property, "needs": what specific condition is needed for it to manifest, "ran": the exact commands you ran and their outcomes (demo with/without the patch; which existing tests you ran with the patch)}}.

You MUST verify yourself: (a) with the patch, the demonstration fails; (b) without the patch (git stash / git apply -R), the demonstration passes; (c) with the patch, the existing tests that exercise the touched code still pass - at least `cargo test --offline -p <touched crate>` and the root crate's integration tests most related to the touched code (e.g. `cargo test --offline --test vm --test api --test pass --test fail` style; list the tests directory to see which exist; the root tests may need `--features "serialization"` or `--all-features` is NOT required). Building takes a few minutes; be patient, use long timeouts. Do not run more than ~8 parallel cargo jobs (`-j 8`).

When you are done, leave the worktree with your patch applied or not (either is fine), and reply with a short summary: the files in seed_out and what you verified. If your first idea turns out to be caught by existing tests, try another; spend your effort on subtlety rather than size.""")

"""C11 helpers: atoms behind the names used in Marshal.tla, resolution of value / representation terms, Gluon
literals, canonical type names (the keys of the harness' dispatch table)."""
import struct, random

def fbits(x):
    return "%016x" % struct.unpack(">Q", struct.pack(">d", x))[0]

ATOMS = {
    "int": {"0": 0, "1": 1, "-1": -1, "max": 2**63 - 1, "min": -2**63, "63": 63},
    "float": {"0.0": fbits(0.0), "-0.0": fbits(-0.0), "1.5": fbits(1.5), "nan": "7ff8000000000000", "inf": fbits(float("inf")),
              "minpos": "0010000000000000", "big": fbits(1e308)},
    "byte": {"0": 0, "1": 1, "255": 255},
    "char": {"a": ord("a"), "e_acute": 0xe9, "euro": 0x20ac, "emoji": 0x1f600, "nul": 0},
    "str": {"empty": "", "a": "a", "multibyte": "é€日\U0001f600", "nul": "\0x", "long": "é€日\U0001f600" * 40},
}
FLOAT_LIT = {fbits(0.0): "0.0", fbits(1.5): "1.5"}


def tname(t):
    if len(t) == 1:
        return t[0]
    return "%s(%s)" % (t[0], ",".join(tname(x) for x in t[1:]))


def random_atoms(rng):
    """an override table: every atom name is given a fresh random value of its kind (thorough tier)"""
    o = {k: dict(v) for k, v in ATOMS.items()}
    for n in o["int"]:
        o["int"][n] = rng.choice([rng.randrange(-2**63, 2**63), rng.randrange(-300, 300), rng.choice([2**31, 2**32, -2**31 - 1, 2**53 + 1])])
    for n in o["float"]:
        o["float"][n] = "%016x" % rng.getrandbits(64)
    for n in o["byte"]:
        o["byte"][n] = rng.randrange(256)
    for n in o["char"]:
        c = rng.choice([rng.randrange(1, 0x80), rng.randrange(0x80, 0x800), rng.randrange(0x800, 0xd800), rng.randrange(0xe000, 0x110000)])
        o["char"][n] = c
    for n in o["str"]:
        ln = rng.choice([0, 1, 2, 5, 17, 300])
        o["str"][n] = "".join(chr(rng.choice([rng.randrange(1, 0x80), rng.randrange(0xa0, 0x800), rng.randrange(0x4e00, 0x9fff), rng.randrange(0x1f600, 0x1f640)])) for _ in range(ln))
    # distinct names must stay distinct values (the model's injectivity argument relies on it)
    for k in o:
        vals = list(o[k].values())
        if len(set(map(str, vals))) != len(vals):
            return random_atoms(rng)
    return o


def rv(v, A=ATOMS):
    """resolve a value term"""
    k = v[0]
    if k == "int":
        return ["int", str(A["int"][v[1]])]
    if k == "float":
        return ["float", A["float"][v[1]]]
    if k == "byte":
        return ["byte", str(A["byte"][v[1]])]
    if k == "char":
        return ["char", str(A["char"][v[1]])]
    if k == "str":
        return ["str", A["str"][v[1]]]
    if k in ("bool", "unit", "none"):
        return list(v)
    if k in ("some", "ok", "err"):
        return [k, rv(v[1], A)]
    if k == "list":
        return ["list", [rv(x, A) for x in v[1]]]
    if k == "pair":
        return ["pair", rv(v[1], A), rv(v[2], A)]
    if k == "map":
        d = {}
        for kk, x in v[1]:
            d[A["str"][kk]] = rv(x, A)
        return ["map", [[kk, d[kk]] for kk in sorted(d, key=lambda s: s.encode("utf-8"))]]
    if k == "rec":
        return ["rec", rv(v[1], A), rv(v[2], A), rv(v[3], A)]
    if k == "rec2":
        return ["rec2", rv(v[1], A), rv(v[2], A)]
    if k in ("en", "en2"):
        return [k, v[1], [rv(x, A) for x in v[2]]]
    raise ValueError(v)


def rr(g, A=ATOMS):
    """resolve a representation term; Data without fields is a Tag"""
    k = g[0]
    if k == "Int":
        n = g[1]
        if n.startswith("codepoint "):
            return ["Int", str(A["char"][n[len("codepoint "):]])]
        if n.startswith("byte "):
            return ["Int", str(A["byte"][n[5:]])]
        return ["Int", str(A["int"][n])]
    if k == "Float":
        return ["Float", A["float"][g[1]]]
    if k == "Byte":
        return ["Byte", str(A["byte"][g[1]])]
    if k == "String":
        n = g[1]
        if n.startswith("char "):
            return ["String", chr(A["char"][n[5:]])]
        return ["String", A["str"][n]]
    if k == "Tag":
        return ["Tag", g[1]]
    if k == "Data":
        if not g[2]:
            return ["Tag", g[1]]
        return ["Data", g[1], [rr(x, A) for x in g[2]]]
    if k == "Array":
        return ["Array", [rr(x, A) for x in g[1]]]
    if k in ("Opaque", "Unit"):
        return [k]
    raise ValueError(g)


def rep_matches(expected, got):
    if expected == ["Opaque"]:
        return True
    if expected == ["Unit"]:
        return got in (["Tag", 0], ["Int", "0"])
    if not isinstance(got, list) or not got or expected[0] != got[0]:
        return False
    if expected[0] == "Data":
        return expected[1] == got[1] and len(expected[2]) == len(got[2]) and all(rep_matches(a, b) for a, b in zip(expected[2], got[2]))
    if expected[0] == "Array":
        return len(expected[1]) == len(got[1]) and all(rep_matches(a, b) for a, b in zip(expected[1], got[1]))
    return expected == got


def gstr(s):
    out = []
    for c in s:
        if c == '"':
            out.append('\\"')
        elif c == "\\":
            out.append("\\\\")
        elif c == "\n":
            out.append("\\n")
        elif ord(c) < 32 or c == "\x7f":
            return None
        else:
            out.append(c)
    return '"' + "".join(out) + '"'


def lit(v):
    """Gluon source for a resolved value term, or None if it has no literal"""
    k = v[0]
    if k == "int":
        n = int(v[1])
        if n == -2**63:
            return "(-9223372036854775807 - 1)"
        return str(n) if n >= 0 else "(%d)" % n
    if k == "float":
        return FLOAT_LIT.get(v[1])
    if k == "byte":
        return "%sb" % v[1]
    if k == "char":
        c = int(v[1])
        if c < 32 or c == 0x27 or c == 0x5c or c >= 0x7f:        # a non-ASCII character literal panics in the lexer (C09's domain)
            return None
        return "'%s'" % chr(c)
    if k == "str":
        return gstr(v[1])
    if k == "bool":
        return "True" if v[1] == "true" else "False"
    if k == "unit":
        return "()"
    if k == "none":
        return "None"
    if k in ("some", "ok", "err"):
        x = lit(v[1])
        return None if x is None else "(%s %s)" % ({"some": "Some", "ok": "Ok", "err": "Err"}[k], x)
    if k == "list":
        xs = [lit(x) for x in v[1]]
        return None if None in xs else "[" + ", ".join(xs) + "]"
    if k == "pair":
        a, b = lit(v[1]), lit(v[2])
        return None if a is None or b is None else "(%s, %s)" % (a, b)
    if k == "map":
        acc = "map.empty"
        es = list(v[1])
        # insertion order middle, smallest, largest ...: the tree gets left and right children (ascending insertion,
        # which is what Rust's Pushable does, only ever builds right spines)
        if len(es) >= 2:
            mid = len(es) // 2
            es = [es[mid]] + es[:mid] + es[mid + 1:]
        for kk, x in reversed(es):
            ks, xs = gstr(kk), lit(x)
            if ks is None or xs is None:
                return None
            acc = "(map.insert_string %s %s %s)" % (ks, xs, acc)
        return acc
    if k == "rec":
        a, b, c = lit(v[1]), lit(v[2]), lit(v[3])
        return None if None in (a, b, c) else "{ n = %s, s = %s, v = %s }" % (a, b, c)
    if k == "en":
        xs = [lit(x) for x in v[2]]
        if None in xs:
            return None
        return ["Unit", "(One %s)", "(Two %s %s)"][v[1]] % tuple(xs) if xs else "Unit"
    if k == "rec2":
        a, b = lit(v[1]), lit(v[2])
        return None if None in (a, b) else "{ b = %s, a = %s }" % (b, a)
    if k == "en2":
        xs = [lit(x) for x in v[2]]
        if None in xs:
            return None
        return ["Dot", "(Rect { height = %s, width = %s })", "(Label { text = %s, id = %s })"][v[1]] % tuple(reversed(xs)) if xs else "Dot"
    raise ValueError(v)


LIT_PRELUDE = "let { Rec, En, Rec2, En2 } = import! mtypes\nlet map = import! std.map\nlet { Result, Option } = import! std.types\n"


def lit_program(v):
    x = lit(v)
    return None if x is None else LIT_PRELUDE + x + "\n"


FN_BODY = {"fn(int,int)": "\\x -> x #Int+ 1", "fn(str,int)": "\\s -> 1", "fn(int,str)": "\\x -> \"s\"", "fn(str,str)": "\\s -> s",
           "fn(int,fn(int,int))": "\\x y -> x #Int+ y"}


def constructors(t):
    """the type constructors a value of type t is built from (field types of the derived struct / enum included)"""
    out = [t[0]] + {"rec": ["int", "str", "vec"], "en": ["int", "str", "float"], "rec2": ["int", "str"], "en2": ["int", "str"]}.get(t[0], [])
    for x in t[1:]:
        out += constructors(x)
    return out

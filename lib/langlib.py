"""Lang.tla behaviours -> gluon source, expected outcome, corpus generation (shared by C01, C02, C04, C05, C12, C16)."""
import json, os, re, hashlib
import vlib

ARITY = {}
for g in "var lit big err true false none nil arr0".split():
    ARITY[g] = 0
for g in "lam1 lam2 lam11 eff effm prx pry prxn pryn prxa prya some".split():
    ARITY[g] = 1
for g in "add sub mul div let letu app1 papp lt eq and or mkr mkrs upd mkp mtup mrec mpart cons arr2 idx".split():
    ARITY[g] = 2
for g in "if app2 mopt recf".split():
    ARITY[g] = 3
for g in "mlit mlist mlistd mopt3".split():
    ARITY[g] = 4

ALL_PRODS = sorted(ARITY.keys())

PREAMBLE = """type L = | N | C Int L
let { eff } = import! host
let host = import! host
let array = import! std.array.prim
"""

BIG = 4611686018427387904


def parse(p, i=0):
    """prefix list -> tree (g, a, t, children), next index"""
    g, a, t = p[i]
    kids = []
    j = i + 1
    for _ in range(ARITY[g]):
        k, j = parse(p, j)
        kids.append(k)
    return (g, a, t, kids), j


class _Out:
    """text emitter which tracks the current column"""
    def __init__(self):
        self.parts = []
        self.col = 0
    def w(self, text):
        self.parts.append(text)
        k = text.rfind("\n")
        if k >= 0:
            self.col = len(text) - k - 1
        else:
            self.col += len(text)
    def nl(self, ind):
        self.w("\n" + " " * ind)
    def text(self):
        return "".join(self.parts)


PREAMBLE_NOPRELUDE = "let { Bool, Option } = import! std.types\n" + PREAMBLE
_PRIM = [False]
_BARE = [False]
_VARPOS = [None]      # when a list: (byte offset, variable index, model type, scope size) of every variable occurrence


def render(p, prim=False, bare=False):
    """prim=True: built-in operators (#Int+ ...) and explicit imports, for runs without the implicit prelude;
    bare=True: `error` without its type annotation (an annotation-dropping mutation: the checker decides)"""
    tree, _ = parse(p)
    o = _Out()
    _PRIM[0] = prim
    _BARE[0] = bare
    o.w(PREAMBLE_NOPRELUDE if prim else PREAMBLE)
    _e(o, tree, 0, 0)
    o.w("\n")
    return o.text()


def render_block(p, prim=False):
    """the same program in the indentation-only (offside) layout: the outer spine of bindings, conditionals, matches,
    lambdas and recursive functions is written without `in`, parentheses or explicit blocks - one construct per line,
    bodies indented by four columns - and only the leaves use the parenthesised one-line form"""
    tree, _ = parse(p)
    o = _Out()
    _PRIM[0] = prim
    _BARE[0] = False
    o.w(PREAMBLE_NOPRELUDE if prim else PREAMBLE)
    _b(o, tree, 0, 0)
    o.w("\n")
    return o.text()


def _b(o, n, depth, ind):
    """block form of node n, the cursor is at column `ind` of a fresh line (or right after a keyword on it)"""
    g, a, t, k = n
    if g in ("let", "letu"):
        o.w("let v%d = " % (depth + 1) if g == "let" else "let _ = ")
        rhs = k[0]
        if rhs[0] in ("if", "mtup", "mrec", "mopt", "mpart", "mlit", "mlist", "mlistd", "mopt3", "let", "letu"):
            # a right-hand side which is itself a block starts on its own line
            o.nl(ind + 4)
            _b(o, rhs, depth, ind + 4)
        else:
            _e(o, rhs, depth, max(ind, o.col))
        o.nl(ind)
        _b(o, k[1], depth + (1 if g == "let" else 0), ind)
        return
    if g == "if":
        o.w("if "); _e(o, k[0], depth, max(ind, o.col)); o.w(" then")
        o.nl(ind + 4); _b(o, k[1], depth, ind + 4)
        o.nl(ind); o.w("else")
        o.nl(ind + 4); _b(o, k[2], depth, ind + 4)
        return
    if g in ("mtup", "mrec", "mopt", "mpart", "mlit", "mlist", "mlistd", "mopt3"):
        o.w("match ")
        if k[0][0] == "none":
            o.w("(let q : Option Int = None in q)")
        else:
            _e(o, k[0], depth, max(ind, o.col))
        o.w(" with")
        d1, d2 = depth + 1, depth + 2
        if g == "mtup":
            alts = [("(v%d, v%d)" % (d1, d2), k[1], depth + 2)]
        elif g == "mrec":
            alts = [("{ x = v%d, y = v%d }" % (d1, d2), k[1], depth + 2)]
        elif g == "mopt":
            alts = [("Some v%d" % d1, k[1], depth + 1), ("None", k[2], depth)]
        elif g == "mpart":
            alts = [("Some v%d" % d1, k[1], depth + 1)]
        elif g == "mlit":
            alts = [("0", k[1], depth), ("1", k[2], depth), ("_", k[3], depth)]
        elif g == "mlistd":
            alts = [("C v%d (C v%d _)" % (d1, d2), k[1], depth + 2), ("C v%d N" % d1, k[2], depth + 1), ("_", k[3], depth)]
        elif g == "mopt3":
            alts = [("Some 0", k[1], depth), ("Some v%d" % d1, k[2], depth + 1), ("_", k[3], depth)]
        else:
            alts = [("C v%d (C v%d _)" % (d1, d2), k[1], depth + 2), ("C v%d N" % d1, k[2], depth + 1), ("N", k[3], depth)]
        for i, (pat, body, d) in enumerate(alts):
            o.nl(ind)
            o.w("| %s ->" % pat)
            if i % 2 == 0:
                o.nl(ind + 4); _b(o, body, d, ind + 4)
            else:
                o.w(" "); _e(o, body, d, max(ind, o.col))      # an alternative on the line of its pattern
        return
    if g in ("lam1", "lam11", "lam2"):
        ty = {"lam1": "Int -> Int", "lam11": "Int -> Int -> Int", "lam2": "Int -> Int -> Int"}[g]
        params = "v%d" % (depth + 1) if g != "lam2" else "v%d v%d" % (depth + 1, depth + 2)
        o.w("let fn : %s = \\%s ->" % (ty, params))
        nd = depth + (2 if g == "lam2" else 1)
        o.nl(ind + 4); _b(o, k[0], nd, ind + 4)
        o.nl(ind); o.w("fn")
        return
    if g == "recf":
        f, nn, rr = depth + 1, depth + 2, depth + 3
        lt = "#Int<" if _PRIM[0] else "<"
        o.w("rec let v%d v%d : Int -> Int =" % (f, nn))
        o.nl(ind + 4); o.w("if (v%d %s 1) || (3 %s v%d) then" % (nn, lt, lt, nn))
        o.nl(ind + 8); _b(o, k[0], depth + 2, ind + 8)
        o.nl(ind + 4); o.w("else")
        o.nl(ind + 8); o.w("let v%d = v%d (v%d %s 1)" % (rr, f, nn, "#Int-" if _PRIM[0] else "-"))
        o.nl(ind + 8); _b(o, k[1], depth + 3, ind + 8)
        o.nl(ind); _b(o, k[2], depth + 1, ind)
        return
    _e(o, n, depth, max(ind, o.col) if o.col > ind else ind)


def _e(o, n, depth, ctx):
    """emits node n; depth = variables in scope; ctx = largest column of an enclosing layout context (let keyword or
    match alternative): continuation lines are placed at ctx + 4, deeper than every open context"""
    g, a, t, k = n
    E = lambda x, d=depth, c=ctx: _e(o, x, d, c)
    if g == "var":
        if _VARPOS[0] is not None:
            _VARPOS[0].append((sum(len(x) for x in o.parts), a, t, depth))
        o.w("v%d" % a); return
    if g == "lit":
        o.w(str(a)); return
    if g == "big":
        o.w(str(BIG)); return
    if g in ("add", "sub", "mul", "div", "lt", "eq", "and", "or"):
        op = {"add": "+", "sub": "-", "mul": "*", "div": "/", "lt": "<", "eq": "==", "and": "&&", "or": "||"}[g]
        if _PRIM[0] and g not in ("and", "or"):
            op = "#Int" + op
        o.w("("); E(k[0]); o.w(" %s " % op); E(k[1]); o.w(")"); return
    if g == "if":
        # `then` and `else` open layout blocks at the first token of the branch (parser/src/layout.rs): a continuation
        # line of the branch must stay to the right of that column even after the parentheses it started with close
        o.w("(if "); E(k[0]); o.w(" then "); _e(o, k[1], depth, max(ctx, o.col)); o.w(" else "); _e(o, k[2], depth, max(ctx, o.col)); o.w(")"); return
    # a binding's right-hand side is a layout block which starts at its first token: everything inside it that
    # continues on later lines must be indented deeper than that column
    # the body after `in` is an implicit block anchored at the column of the `let` keyword (layout.rs injects it so
    # that a sequence of expressions ends up in the body): its continuation lines must stay to the right of it
    if g == "let":
        lc = o.col + 1
        o.w("(let v%d = " % (depth + 1))
        c = max(ctx, o.col)
        _e(o, k[0], depth, c); o.w(" in "); _e(o, k[1], depth + 1, max(ctx, lc)); o.w(")"); return
    if g == "letu":
        lc = o.col + 1
        o.w("(let _ = ")
        c = max(ctx, o.col)
        _e(o, k[0], depth, c); o.w(" in "); _e(o, k[1], depth, max(ctx, lc)); o.w(")"); return
    if g in ("app1", "papp"):
        o.w("("); E(k[0]); o.w(" "); E(k[1]); o.w(")"); return
    if g == "app2":
        o.w("("); E(k[0]); o.w(" "); E(k[1]); o.w(" "); E(k[2]); o.w(")"); return
    # lambdas are bound with their type: overloaded operators in the body (implicit Num / Eq / Ord arguments) are
    # otherwise resolved before the parameter type is known and the checker rejects the program
    if g in ("lam1", "lam11"):
        o.w("(let fn : %s = \\v%d -> " % ("Int -> Int" if g == "lam1" else "Int -> Int -> Int", depth + 1))
        c = max(ctx, o.col)
        _e(o, k[0], depth + 1, c); o.w(" in fn)"); return
    if g == "lam2":
        o.w("(let fn : Int -> Int -> Int = \\v%d v%d -> " % (depth + 1, depth + 2))
        c = max(ctx, o.col)
        _e(o, k[0], depth + 2, c); o.w(" in fn)"); return
    if g == "eff":
        o.w("(eff "); E(k[0]); o.w(")"); return
    if g == "effm":
        o.w("(host.eff "); E(k[0]); o.w(")"); return
    if g == "err":
        # scalar / record / option typed holes carry the annotation inference needs; function types are inferred from the use
        ann = {"R": "{ x : Int, y : Int }", "O": "Option Int", "I": "Int", "B": "Bool", "F1": "Int -> Int", "F2": "Int -> Int -> Int"}.get(t)
        if ann and not _BARE[0]:
            o.w("(let q : %s = error \"boom\" in q)" % ann)
        else:
            o.w("(error \"boom\")")
        return
    if g == "true":
        o.w("True"); return
    if g == "false":
        o.w("False"); return
    if g == "mkr":
        o.w("{ x = "); E(k[0]); o.w(", y = "); E(k[1]); o.w(" }"); return
    if g == "mkrs":
        o.w("{ y = "); E(k[0]); o.w(", x = "); E(k[1]); o.w(" }"); return
    if g in ("prxn", "pryn"):
        o.w("((\\r -> r.%s) " % g[2]); E(k[0]); o.w(")"); return
    if g in ("prxa", "prya"):
        o.w("(let r : { x : Int, y : Int } = ")
        c = max(ctx, o.col)
        _e(o, k[0], depth, c); o.w(" in r.%s)" % g[2]); return
    if g == "upd":
        o.w("{ x = "); E(k[0]); o.w(", .. "); E(k[1]); o.w(" }"); return
    if g in ("prx", "pry"):
        o.w("("); E(k[0]); o.w(").%s" % g[2]); return
    if g == "mkp":
        o.w("("); E(k[0]); o.w(", "); E(k[1]); o.w(")"); return
    if g == "none":
        o.w("None"); return
    if g == "some":
        o.w("(Some "); E(k[0]); o.w(")"); return
    if g == "nil":
        o.w("N"); return
    if g == "cons":
        o.w("(C "); E(k[0]); o.w(" "); E(k[1]); o.w(")"); return
    if g == "arr0":
        o.w("(let q : Array Int = [] in q)"); return
    if g == "arr2":
        o.w("["); E(k[0]); o.w(", "); E(k[1]); o.w("]"); return
    if g == "idx":
        o.w("(array.index "); E(k[0]); o.w(" "); E(k[1]); o.w(")"); return
    if g in ("mtup", "mrec", "mopt", "mpart", "mlit", "mlist", "mlistd", "mopt3"):
        o.w("(match ")
        if k[0][0] == "none":
            # a bare None as scrutinee leaves the element type open: comparisons on the bound variable would be ambiguous
            o.w("(let q : Option Int = None in q)")
        else:
            E(k[0])
        o.w(" with")
        ind = ctx + 4
        d1, d2 = depth + 1, depth + 2
        if g == "mtup":
            alts = [("(v%d, v%d)" % (d1, d2), k[1], depth + 2)]
        elif g == "mrec":
            alts = [("{ x = v%d, y = v%d }" % (d1, d2), k[1], depth + 2)]
        elif g == "mopt":
            alts = [("Some v%d" % d1, k[1], depth + 1), ("None", k[2], depth)]
        elif g == "mpart":
            alts = [("Some v%d" % d1, k[1], depth + 1)]
        elif g == "mlit":
            alts = [("0", k[1], depth), ("1", k[2], depth), ("_", k[3], depth)]
        elif g == "mlistd":
            alts = [("C v%d (C v%d _)" % (d1, d2), k[1], depth + 2), ("C v%d N" % d1, k[2], depth + 1), ("_", k[3], depth)]
        elif g == "mopt3":
            alts = [("Some 0", k[1], depth), ("Some v%d" % d1, k[2], depth + 1), ("_", k[3], depth)]
        else:
            alts = [("C v%d (C v%d _)" % (d1, d2), k[1], depth + 2), ("C v%d N" % d1, k[2], depth + 1), ("N", k[3], depth)]
        for pat, body, d in alts:
            o.nl(ind)
            o.w("| %s -> " % pat)
            _e(o, body, d, max(ind, o.col))
        o.w(")"); return
    if g == "recf":
        f, nn, rr = depth + 1, depth + 2, depth + 3
        lc = o.col + 1
        o.w("(rec let v%d v%d : Int -> Int = " % (f, nn))
        c = max(ctx, o.col)
        lt = "#Int<" if _PRIM[0] else "<"
        o.w("if (v%d %s 1) || (3 %s v%d) then " % (nn, lt, lt, nn))
        _e(o, k[0], depth + 2, max(c, o.col))
        o.w(" else ")
        c2 = max(c, o.col)
        lc2 = o.col + 1
        o.w("(let v%d = v%d (v%d %s 1) in " % (rr, f, nn, "#Int-" if _PRIM[0] else "-"))
        _e(o, k[1], depth + 3, max(c2, lc2))
        o.w(") in ")
        _e(o, k[2], depth + 1, max(ctx, lc))
        o.w(")"); return
    raise ValueError(g)


def show(v):
    """model value (Show) -> the harness' canonical rendering"""
    tag = v[0]
    if tag == "i":
        return str(v[1] * BIG + v[2])
    if tag == "b":
        return "{%d}" % v[1]
    if tag == "fn":
        return "<fn>"
    if tag == "data":
        if not v[2]:
            return "{%d}" % v[1]
        return "{%d|%s}" % (v[1], ",".join(show(x) for x in v[2]))
    if tag == "arr":
        return "[%s]" % ",".join(show(x) for x in v[1])
    raise ValueError(tag)


def expected(o):
    """(kind, value-or-class, log)"""
    log = [k * BIG + d for k, d in o["log"]]
    if o["k"] == "val":
        return ("val", show(o["v"]), log)
    return ("err", o["v"][0], log)


ARITH_ONLY = {"add", "sub", "mul", "div"}


def res_tuple(o):
    log = [k * BIG + d for k, d in o["log"]]
    if o["k"] == "val":
        return ("val", show(o["v"]), log)
    return ("err", o["v"][0], log)


def observed_tuple(r):
    if r["status"] == "ok":
        return ("val", r["value"], r["log"])
    if r["status"] == "err":
        return ("err", r.get("class"), r["log"])
    return (r["status"], r.get("panic_at") or r.get("msg", "")[:80], r["log"])


DROPPED_KINDS = {"app1", "app2", "papp", "effm", "idx", "mpart", "recf"}      # see known_findings.json (C01 / C04)


def explain_by_dead_bindings(o, r):
    """If the observed outcome equals the model outcome of the program with some dead bindings dropped, returns the
    sorted list of impure node kinds in the dropped right-hand sides (possibly empty); otherwise None."""
    obs = observed_tuple(r)
    best = None
    # several sets of dropped bindings can explain one observation (two bindings with the same effect, a failing and a
    # calling right-hand side in one dropped subtree ...): the explanation that only uses the kinds of right-hand sides
    # the optimiser is recorded to drop is preferred, then the smaller one
    rank = lambda kinds: (len([k for k in kinds if k not in DROPPED_KINDS and k not in ARITH_ONLY]), len(kinds), kinds)
    for a in o.get("alts", []):
        if res_tuple(a["o"]) == obs:
            kinds = sorted(a["d"])
            if best is None or rank(kinds) < rank(best):
                best = kinds
    return best


def write_cfg(name, size, prods, roots=("I",), scope=3, emit=True, mutations=0):
    c = "SPECIFICATION Spec\nCONSTANTS\n  MaxSize = %d\n  MaxScope = %d\n  RootTys = {%s}\n  Emit = %s\n  Mutations = %d\n  Prods = {%s}\nINVARIANTS Sound EmitMutant\nCHECK_DEADLOCK FALSE\n" % (
        size, scope, ", ".join('"%s"' % r for r in roots), "TRUE" if emit else "FALSE", mutations, ", ".join('"%s"' % p for p in sorted(prods)))
    open(os.path.join(vlib.SPEC, name + ".cfg"), "w").write(c)
    return name


FOCUS = {
    "calls": "var lit add if let app1 app2 papp lam1 lam2 lam11 eff true lt recf err".split(),
    "data": "var lit add let mkr mkrs upd prx pry prxn pryn prxa prya mkp mtup mrec none some mopt mopt3 mpart mlit nil cons mlist mlistd arr0 arr2 idx eff err".split(),
    "arith": "var lit big add sub mul div if lt eq and or true false let letu eff effm err".split(),
    "effects": "var lit add let letu eff effm app1 lam1 papp lam2 mkr prx if true and or err div big mul".split(),
}


def corpus(tag, size, prods, roots=("I",), scope=3, simulate=None, depth=None, seed=None, timeout=1800, sample=None, rng_seed=1, mutations=0):
    """runs TLC on Lang.tla; returns (list of outcome dicts, TlcResult)"""
    name = write_cfg("_lang_" + tag + "_%d" % os.getpid(), size, prods, roots, scope, mutations=mutations)
    outs = []
    def cb(line):
        o = vlib.tlc_value_to_json(line)
        if o is not None:
            outs.append(o)
    try:
        r = vlib.run_tlc("Lang", name, workers=12, timeout=timeout, print_prefix='"PROG"', print_cb=cb, simulate=simulate, depth=depth,
                         seed_=seed, xss="512m", xmx="12g")
    finally:
        try:
            os.remove(os.path.join(vlib.SPEC, name + ".cfg"))
        except OSError:
            pass
    if r.violation:
        raise vlib.ToolError("Lang.tla: %s violated (model type soundness) in %s\n%s" % (r.violation, tag, "\n".join(r.trace[-2:])[:2000]))
    outs.sort(key=lambda o: json.dumps(o["p"]))      # TLC's output order depends on its worker threads
    if sample is not None and len(outs) > sample:
        import random
        rnd = random.Random(rng_seed)
        outs = rnd.sample(outs, sample)
    return outs, r


def key_of(p):
    return hashlib.sha1(json.dumps(p).encode()).hexdigest()[:12]


def features(p):
    return sorted({n[0] for n in p})


def dead_lets(p):
    """True if the program has a let whose variable is never used, or a `let _ =` binding"""
    tree, _ = parse(p)
    found = []
    def used(n, idx):
        g, a, t, k = n
        if g == "var" and a == idx:
            return True
        return any(used(c, idx) for c in k)
    def walk(n, depth):
        g, a, t, k = n
        if g == "letu":
            found.append(1)
        if g == "let" and not used(k[1], depth + 1):
            found.append(1)
        # depth bookkeeping mirrors the renderer
        if g == "let":
            walk(k[0], depth); walk(k[1], depth + 1)
        elif g in ("lam1", "lam11"):
            walk(k[0], depth + 1)
        elif g == "lam2":
            walk(k[0], depth + 2)
        elif g in ("mtup", "mrec"):
            walk(k[0], depth); walk(k[1], depth + 2)
        elif g in ("mopt",):
            walk(k[0], depth); walk(k[1], depth + 1); walk(k[2], depth)
        elif g == "mpart":
            walk(k[0], depth); walk(k[1], depth + 1)
        elif g in ("mlist", "mlistd"):
            walk(k[0], depth); walk(k[1], depth + 2); walk(k[2], depth + 1); walk(k[3], depth)
        elif g == "mopt3":
            walk(k[0], depth); walk(k[1], depth); walk(k[2], depth + 1); walk(k[3], depth)
        elif g == "recf":
            walk(k[0], depth + 2); walk(k[1], depth + 3); walk(k[2], depth + 1)
        else:
            for c in k:
                walk(c, depth)
    walk(tree, 0)
    return bool(found)


def rep_src(o):
    return render(o["p"])


def judge(V, o, r, tag="", stats=None):
    """compares one result with the model outcome; returns True if it agreed (or differs only as permitted)"""
    kind, val, log = expected(o)
    feats = ",".join(f for f in features(o["p"]) if f in ("recf", "app2", "papp", "lam11", "mlist", "upd", "idx", "mpart", "effm", "big"))
    if any(n[0] in ("prxa", "prya") for n in o["p"]) and r["status"] not in ("panic", "crash", "hang") and observed_tuple(r) != (kind, val, log):
        # a record literal written { y = .., x = .. } bound under the annotation { x : Int, y : Int } reads the wrong
        # field (recorded finding); what the wrong number does downstream (another value, an overflow, another branch)
        # is one and the same disagreement
        V.violation("%sswapped-record-under-annotation" % tag, "model: %s, VM: %s\n%s" % ((kind, val, log), observed_tuple(r), rep_src(o)), {"p": o["p"], "src": rep_src(o), "expected": [kind, val, log], "observed": r})
        return False
    rep = {"p": o["p"], "src": render(o["p"]), "expected": [kind, val, log], "observed": r, "alts": o.get("alts", [])}
    if r["status"] in ("panic", "crash", "hang"):
        where = r.get("panic_at") or r["msg"][:80]
        V.violation("%s%s:%s" % (tag, r["status"], where), "program %s the host: %s\n%s" % (r["status"], r["msg"][:400], rep["src"]), rep)
        return False
    if observed_tuple(r) == (kind, val, log):
        return True
    # OptModel: is the observation the outcome of the program with dead bindings dropped?
    kinds = explain_by_dead_bindings(o, r)
    if kinds is not None:
        if set(kinds) <= ARITH_ONLY and tag.startswith("opt"):
            # the permitted optimisation: an unused built-in arithmetic operation was skipped
            if stats is not None:
                stats["permitted_arith_skips"] = stats.get("permitted_arith_skips", 0) + 1
            return True
        V.violation("%sdead-binding-dropped:%s" % (tag, ",".join(k for k in kinds if k not in ARITH_ONLY) or "arith"),
                    "an unused binding whose right-hand side contains %s was not evaluated: model %s, VM %s\n%s" % (kinds, (kind, val, log), observed_tuple(r), rep["src"]), rep)
        return False
    if tag.startswith("opt") and len(o.get("alts", [])) < o.get("nalts", 0):
        # some dead-binding variant of this program leaves the symbolic integer domain: the model cannot tell whether the
        # observation is explained by the (known) dead-binding elimination; not judged under optimisation
        if stats is not None:
            stats["opt_inconclusive"] = stats.get("opt_inconclusive", 0) + 1
        return True
    if kind == "val":
        if r["status"] != "ok":
            V.violation("%sexpected-value:got-error:%s" % (tag, r.get("class")), "model: %s, VM failed: %s\n%s" % (val, r["msg"][:300], rep["src"]), rep)
        elif r["value"] != val:
            V.violation("%swrong-value:%s" % (tag, feats), "model: %s, VM: %s\n%s" % (val, r["value"], rep["src"]), rep)
        else:
            V.violation("%swrong-effects:%s" % (tag, feats), "model effect log %s, VM %s\n%s" % (log, r["log"], rep["src"]), rep)
        return False
    if r["status"] == "ok":
        V.violation("%sexpected-error:%s:got-value" % (tag, val), "model: failure %s, VM returned %s\n%s" % (val, r["value"], rep["src"]), rep)
    elif r.get("class") != val:
        V.violation("%swrong-failure:%s:%s" % (tag, val, r.get("class")), "model: failure %s, VM: %s\n%s" % (val, r["msg"][:300], rep["src"]), rep)
    else:
        V.violation("%swrong-effects:%s" % (tag, feats), "model effect log %s, VM %s\n%s" % (log, r["log"], rep["src"]), rep)
    return False




# ---------------------------------------------------------------- value shape against a printed type

def _parse_value(s):
    """parses the harness' canonical value rendering into a tree"""
    pos = [0]
    def val():
        c = s[pos[0]]
        if c == "{":
            pos[0] += 1
            j = pos[0]
            while s[pos[0]].isdigit():
                pos[0] += 1
            tag = int(s[j:pos[0]])
            fields = []
            if s[pos[0]] == "|":
                pos[0] += 1
                fields.append(val())
                while s[pos[0]] == ",":
                    pos[0] += 1
                    fields.append(val())
            assert s[pos[0]] == "}"
            pos[0] += 1
            return ("data", tag, fields)
        if c == "[":
            pos[0] += 1
            xs = []
            if s[pos[0]] != "]":
                xs.append(val())
                while s[pos[0]] == ",":
                    pos[0] += 1
                    xs.append(val())
            pos[0] += 1
            return ("arr", xs)
        if c == "<":
            j = s.index(">", pos[0])
            t = s[pos[0]:j + 1]
            pos[0] = j + 1
            return ("opaque", t)
        if c == '"':
            j = pos[0] + 1
            while s[j] != '"':
                j += 2 if s[j] == "\\" else 1
            pos[0] = j + 1
            return ("str",)
        j = pos[0]
        while pos[0] < len(s) and s[pos[0]] not in ",|}]":
            pos[0] += 1
        tok = s[j:pos[0]]
        if tok.endswith("b"):
            return ("byte",)
        if tok.startswith("f"):
            return ("float",)
        return ("int", int(tok))
    return val()


def _tokenize_type(t):
    return re.findall(r"->|[(){}\[\],:.|]|[A-Za-z_][A-Za-z0-9_.']*|\S", t)


def _parse_type(t):
    toks = _tokenize_type(t)
    pos = [0]
    def peek():
        return toks[pos[0]] if pos[0] < len(toks) else None
    def eat(x=None):
        tok = peek()
        if x is not None and tok != x:
            raise ValueError("expected %s got %s" % (x, tok))
        pos[0] += 1
        return tok
    def typ():
        if peek() == "forall":
            eat()
            vs = []
            while peek() != ".":
                vs.append(eat())
            eat(".")
            return ("forall", vs, typ())
        if peek() == "[":          # implicit argument
            raise ValueError("implicit")
        a = app()
        if peek() == "->":
            eat()
            return ("fn", a, typ())
        return a
    def app():
        head = atom()
        args = []
        while peek() not in (None, "->", ")", ",", "}", "|", ":", "]"):
            args.append(atom())
        if args:
            return ("app", head, args)
        return head
    def atom():
        tok = peek()
        if tok == "(":
            eat()
            if peek() == ")":
                eat()
                return ("unit",)
            xs = [typ()]
            while peek() == ",":
                eat()
                xs.append(typ())
            eat(")")
            return xs[0] if len(xs) == 1 else ("tuple", xs)
        if tok == "{":
            eat()
            fields = []
            tail = None
            while peek() != "}":
                if peek() == "|":
                    eat()
                    tail = eat()
                    break
                name = eat()
                eat(":")
                fields.append((name, typ()))
                if peek() == ",":
                    eat()
            eat("}")
            if tail is not None:
                return ("record", fields, tail)
            return ("record", fields)
        if tok is None or not re.match(r"[A-Za-z_]", tok):
            raise ValueError("atom %s" % tok)
        eat()
        return ("id", tok)
    r = typ()
    if pos[0] != len(toks):
        raise ValueError("trailing")
    return r


def shape_ok(type_text, value_text):
    """True / False / None (= not judged: the type or the value uses something this checker does not know)"""
    try:
        ty = _parse_type(type_text.replace("\n", " "))
        v = _parse_value(value_text)
    except Exception:
        return None
    def chk(ty, v):
        k = ty[0]
        if k == "forall":
            return chk(ty[2], v)
        if k == "fn":
            return v[0] == "opaque"
        if k == "unit":
            return None
        if k == "tuple":
            if v[0] != "data" or len(v[2]) != len(ty[1]):
                return False
            rs = [chk(a, b) for a, b in zip(ty[1], v[2])]
            return False if False in rs else (None if None in rs else True)
        if k == "record":
            if v[0] != "data" or len(v[2]) != len(ty[1]):
                return False
            rs = [chk(a[1], b) for a, b in zip(ty[1], v[2])]
            return False if False in rs else (None if None in rs else True)
        if k == "id":
            name = ty[1].split(".")[-1]
            if name == "Int":
                return v[0] == "int"
            if name == "Float":
                return v[0] == "float"
            if name == "String":
                return v[0] == "str"
            if name == "Byte":
                return v[0] == "byte"
            if name == "Bool":
                return v[0] == "data" and v[1] in (0, 1) and not v[2]
            if name == "L":
                if v[0] != "data":
                    return False
                if v[1] == 0:
                    return not v[2]
                return v[1] == 1 and len(v[2]) == 2 and v[2][0][0] == "int" and chk(ty, v[2][1])
            return None
        if k == "app" and ty[1][0] == "id":
            name = ty[1][1].split(".")[-1]
            if name == "Option" and len(ty[2]) == 1:
                if v[0] != "data":
                    return False
                if v[1] == 0:
                    return not v[2]
                return (v[1] == 1 and len(v[2]) == 1) and chk(ty[2][0], v[2][0])
            if name == "Array" and len(ty[2]) == 1:
                if v[0] != "arr":
                    return False
                rs = [chk(ty[2][0], x) for x in v[1]]
                return False if False in rs else (None if None in rs else True)
            return None
        return None
    return chk(ty, v)


def render_with_vars(p):
    """(source, [(offset, variable index, model type, scope size)]) - offsets of variable occurrences in the source"""
    _VARPOS[0] = []
    try:
        src = render(p)
        return src, list(_VARPOS[0])
    finally:
        _VARPOS[0] = None


GLUON_TYPE = {"I": "Int", "B": "std.types.Bool", "F1": "Int -> Int", "F2": "Int -> Int -> Int", "R": "{ x : Int, y : Int }",
              "O": "std.types.Option Int", "L": "prog.L", "P": "(Int, Int)", "A": "Array Int"}

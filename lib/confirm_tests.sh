#!/bin/bash
# usage: confirm_tests.sh <worktree> <seed dir>
# Runs the existing tests most related to the VM/compiler with the patch applied (scratch worktree only).
WT=$1; SD=$2
cd $WT || exit 2
export CARGO_TARGET_DIR=$WT/target
git checkout -q -- . 2>/dev/null; rm -f tests/demo.rs
git apply $SD/patch.diff || { echo "PATCH DOES NOT APPLY" > $SD/confirm_tests.txt; exit 1; }
{
echo "== existing tests with patch applied (root crate, features serialization gluon_completion; http tests need the web feature and fail with and without any patch)"
cargo test --offline -j 6 --features "serialization gluon_completion" --test main --test vm --test api --test parallel --test safety --test serialization --test limits --test stack_overflow --test io --test error --test pattern_match --test row_polymorphism --no-fail-fast 2>&1 | grep -E "test result|FAILED|failed|Running" | head -60
echo "== crates"
cargo test --offline -j 6 -p gluon_vm -p gluon_check -p gluon_parser -p gluon_base -p gluon_format --no-fail-fast 2>&1 | grep -E "test result|FAILED|failed" | head -40
} > $SD/confirm_tests.txt 2>&1
git checkout -q -- .

"""Shared machinery of the /verif checks: TLC runner, harness builder, findings and evidence."""
import json, os, re, shutil, subprocess, sys, tempfile, time, hashlib

VERIF = os.path.dirname(os.path.dirname(os.path.abspath(__file__)))
SPEC = os.path.join(VERIF, "spec")
# VERIF_SCRATCH (used only by lib/scratch_seed.sh to try a seeded change without touching /repo or the committed
# evidence): a directory holding a worktree `repo`, a copy of the harness pointed at it, and all outputs
SCRATCH = os.environ.get("VERIF_SCRATCH")
REPO = os.path.join(SCRATCH, "repo") if SCRATCH else "/repo"
OUT = SCRATCH if SCRATCH else VERIF
HARNESS = os.path.join(OUT, "harness")
WORK = os.path.join(OUT, "work")
EVID = os.path.join(OUT, "evidence")
REPLAYS = os.path.join(OUT, "replays")
GVH = os.path.join(HARNESS, "target", "debug", "gvh")
JAR = "/opt/veriftools/tla/tla2tools.jar:/opt/veriftools/tla/CommunityModules-deps.jar"


class ToolError(Exception):
    pass


def log(*a):
    print(*a, file=sys.stderr, flush=True)


def seed():
    try:
        return int(os.environ.get("VERIF_SEED", "1"))
    except ValueError:
        return 1


def workdir(name):
    d = os.path.join(WORK, name)
    shutil.rmtree(d, ignore_errors=True)
    os.makedirs(d, exist_ok=True)
    return d


_built = False


def build_harness():
    """Rebuilds the harness (and therefore gluon from /repo's working tree, hooks on)."""
    global _built
    if _built:
        return GVH
    t = time.time()
    env = dict(os.environ, CARGO_NET_OFFLINE="true")
    lock = os.path.join(WORK, ".cargo.lock")
    os.makedirs(os.path.dirname(lock), exist_ok=True)
    import fcntl
    with open(lock, "w") as lf:
        fcntl.flock(lf, fcntl.LOCK_EX)
        p = subprocess.run(["cargo", "build", "--offline", "-j", "12"], cwd=HARNESS, env=env,
                           stdout=subprocess.PIPE, stderr=subprocess.STDOUT, text=True)
    if p.returncode != 0:
        log(p.stdout[-6000:])
        raise ToolError("harness build failed")
    log("[build] harness built in %.1fs" % (time.time() - t))
    _built = True
    return GVH


def gvh(args, input=None, timeout=3600, env=None, check=True):
    """Runs the harness binary; returns (returncode, stdout, stderr)."""
    build_harness()
    e = dict(os.environ)
    e.setdefault("RUST_MIN_STACK", "67108864")
    if env:
        e.update(env)
    try:
        p = subprocess.run([GVH] + list(args), input=input, stdout=subprocess.PIPE, stderr=subprocess.PIPE,
                           text=True, timeout=timeout, env=e, cwd=VERIF)
    except subprocess.TimeoutExpired:
        raise ToolError("gvh %s timed out after %ss" % (args[:2], timeout))
    if check and p.returncode not in (0,):
        log(p.stderr[-4000:])
        raise ToolError("gvh %s failed with status %s" % (args[:3], p.returncode))
    return p.returncode, p.stdout, p.stderr


class TlcResult:
    def __init__(self):
        self.generated = 0
        self.distinct = 0
        self.depth = 0
        self.violation = None      # name of violated invariant/property or 'deadlock'
        self.trace = []            # error trace states (text)
        self.prints = []           # PrintT outputs (raw text of each value)
        self.coverage = {}         # action -> (distinct, total)
        self.out = ""
        self.wall = 0.0
        self.ok = False
        self.timed_out = False


def run_tlc(module, cfg=None, workers=8, simulate=None, depth=None, seed_=None, timeout=1800, coverage=False,
            env=None, deadlock=False, extra=None, xmx="8g", xss=None, dfs=False, cwd=None, name=None, keep_out=False,
            print_prefix=None, print_cb=None):
    """Runs TLC on spec/<module>.tla with spec/<cfg>.cfg.  Returns a TlcResult.
    print_cb, if given, is called with each line of output that contains print_prefix (streaming) instead of
    storing it."""
    cwd = cwd or SPEC
    name = name or (cfg or module)
    meta = workdir("tlc-" + name)
    cmd = ["java", "-XX:+UseParallelGC", "-Xmx" + xmx]
    if xss:
        cmd.append("-Xss" + xss)
    if dfs:
        cmd.append("-Dtlc2.tool.queue.IStateQueue=StateDeque")
    cmd += ["-cp", JAR, "tlc2.TLC", "-metadir", meta, "-cleanup", "-noGenerateSpecTE", "-workers", str(workers)]
    if cfg:
        cmd += ["-config", cfg if cfg.endswith(".cfg") else cfg + ".cfg"]
    if not deadlock:
        cmd += ["-deadlock"]
    if coverage:
        cmd += ["-coverage", "1"]
    if simulate is not None:
        cmd += ["-simulate", "num=%d" % simulate]
        if depth:
            cmd += ["-depth", str(depth)]
    if seed_ is not None:
        cmd += ["-seed", str(seed_)]
    if extra:
        cmd += extra
    cmd.append(module if module.endswith(".tla") else module + ".tla")
    e = dict(os.environ)
    e.pop("JAVA_TOOL_OPTIONS", None)
    if env:
        e.update(env)
    r = TlcResult()
    t0 = time.time()
    p = subprocess.Popen(cmd, cwd=cwd, env=e, stdout=subprocess.PIPE, stderr=subprocess.STDOUT, text=True, bufsize=1 << 20)
    lines = []
    import threading
    timer = threading.Timer(timeout, lambda: (setattr(r, "timed_out", True), p.kill()))
    timer.start()
    try:
        it = iter(p.stdout)
        for line in it:
            if print_prefix and print_prefix in line:
                # TLC's pretty printer may wrap a printed tuple over several lines
                while not line.rstrip().endswith(">>"):
                    try:
                        line = line.rstrip("\n") + " " + next(it).lstrip()
                    except StopIteration:
                        break
                if print_cb:
                    print_cb(line)
                else:
                    r.prints.append(line.rstrip("\n"))
                continue
            lines.append(line)
    finally:
        timer.cancel()
    p.wait()
    r.wall = time.time() - t0
    out = "".join(lines)
    r.out = out if keep_out else out[-20000:]
    shutil.rmtree(meta, ignore_errors=True)
    for m in re.finditer(r"(\d+) states generated, (\d+) distinct states found", out):
        r.generated, r.distinct = int(m.group(1)), int(m.group(2))
    m = re.search(r"The depth of the complete state graph search is (\d+)", out)
    if m:
        r.depth = int(m.group(1))
    m = re.search(r"Error: Invariant (\S+) is violated", out)
    if m:
        r.violation = m.group(1)
    m2 = re.search(r"Error: Action property (\S+) is violated", out)
    if m2:
        r.violation = m2.group(1)
    if "Error: Deadlock reached" in out:
        r.violation = "deadlock"
    if "Temporal properties were violated" in out:
        r.violation = r.violation or "temporal"
    if re.search(r"Error: .*postcondition", out, re.I) or "Error: The postcondition" in out:
        r.violation = r.violation or "postcondition"
    if r.violation:
        r.trace = re.findall(r"State \d+:.*?(?=\nState \d+:|\n\d+ states generated|\Z)", out, re.S)
    if coverage:
        for m in re.finditer(r"<(\w+) line \d+, col \d+ to line \d+, col \d+ of module (\w+)>: (\d+):(\d+)", out):
            r.coverage[m.group(1)] = (int(m.group(3)), int(m.group(4)))
    finished = "Model checking completed" in out or "Finished in" in out or "Finished computing" in out
    r.ok = (p.returncode == 0) and not r.violation
    if r.timed_out:
        return r
    if p.returncode != 0 and not r.violation:
        # TLC errors which are not property violations are tool errors
        if simulate is not None and ("Simulation" in out or "simulat" in out) and "Error" not in out:
            r.ok = True
        else:
            log(out[-5000:])
            raise ToolError("TLC failed on %s/%s (status %s)" % (module, cfg, p.returncode))
    return r


def tlc_value_to_json(text):
    """PrintT of <<"TAG", "<json string>">> : extracts the JSON string (ToJson output) from a printed tuple."""
    m = re.match(r'\s*<<\s*"[A-Za-z0-9_]*"\s*,\s*', text)
    if not m:
        return None
    s = text[m.end():].rstrip()
    if s.endswith(">>"):
        s = s[:-2].rstrip()
    # s is a TLA+ string literal: "...." with \" and \\ escapes
    try:
        return json.loads(json.loads(s))
    except Exception:
        try:
            inner = s[1:-1].replace('\\"', '"').replace("\\\\", "\\")
            return json.loads(inner)
        except Exception:
            return None


# ---------------------------------------------------------------- findings / verdicts

def load_known():
    p = os.path.join(VERIF, "known_findings.json")
    if not os.path.exists(p):
        return []
    return json.load(open(p)).get("findings", [])


class Verdicts:
    """Collects violations, matches them against known_findings.json, prints the interface lines."""

    def __init__(self, pid):
        self.pid = pid
        self.known = [k for k in load_known() if k.get("property") == pid and k.get("status", "open") == "open"]
        self.violations = []   # (key, summary, replay-object)
        self.known_hits = {}
        self.divergences = []

    def violation(self, key, summary, replay):
        for k in self.known:
            if re.fullmatch(k["key"], key):
                if k["key"] not in self.known_hits:
                    self.known_hits[k["key"]] = [k, 0, summary, set()]
                self.known_hits[k["key"]][1] += 1
                self.known_hits[k["key"]][3].add(key)
                return False
        self.violations.append((key, summary, replay))
        return True

    def divergence(self, text):
        if len(self.divergences) < 50:
            self.divergences.append(text)

    def finish(self):
        """Prints KNOWN-FINDING / VIOLATION lines; returns exit code."""
        for key, (k, n, summ, keys) in self.known_hits.items():
            log("  known-finding keys seen: %s" % sorted(keys)[:40])
            print("KNOWN-FINDING: property=%s %s [key=%s, seen %d time(s) in this run]" % (self.pid, k["summary"], key, n), flush=True)
        if not self.violations:
            return 0
        os.makedirs(REPLAYS, exist_ok=True)
        # replay files of earlier runs of this check are stale
        import glob
        for old in glob.glob(os.path.join(REPLAYS, "%s-*.json" % self.pid)):
            try:
                os.remove(old)
            except OSError:
                pass
        allkeys = sorted({k for k, _, _ in self.violations})
        log("[%s] %d violation(s), %d distinct key(s): %s" % (self.pid, len(self.violations), len(allkeys), allkeys[:80]))
        seen = set()
        for key, summary, replay in self.violations:
            if key in seen:
                continue
            seen.add(key)
            if len(seen) > 25:
                break
            h = hashlib.sha1(key.encode()).hexdigest()[:10]
            path = os.path.join(REPLAYS, "%s-%s.json" % (self.pid, h))
            json.dump({"property": self.pid, "key": key, "summary": summary, "replay": replay}, open(path, "w"), indent=1)
            print("VIOLATION property=%s replay=%s" % (self.pid, path), flush=True)
            log("  key=%s\n  %s" % (key, summary[:2000]))
        return 1


def write_evidence(pid, tier, level, coverage, assumptions, wall, violations, extra=None):
    os.makedirs(EVID, exist_ok=True)
    ev = {"property_id": pid, "tier": tier, "seed": seed(), "level": level, "coverage": coverage,
          "assumptions": assumptions, "wall_s": round(wall, 2), "violations": violations}
    if extra:
        ev.update(extra)
    path = os.path.join(EVID, pid + ".json")
    tmp = path + ".tmp"
    json.dump(ev, open(tmp, "w"), indent=1, default=str)
    os.replace(tmp, path)
    return path


def read_ndjson(text):
    out = []
    for line in text.splitlines():
        line = line.strip()
        if line.startswith("{"):
            try:
                out.append(json.loads(line))
            except Exception:
                pass
    return out


# ---------------------------------------------------------------- worker pool (hang / crash isolating)

def run_pool(args, jobs, workers=12, job_timeout=20.0, env=None, total_timeout=7200, retry_hangs=True):
    """Runs `gvh <args>` worker processes speaking the serve protocol (see harness common::serve).
    jobs: list of dicts with unique 'id'.  A job during which the worker stops answering for job_timeout seconds
    gets status 'hang'; a job during which the worker dies gets status 'crash' (with the signal / exit status and
    the tail of stderr).  Returns {id: result}."""
    import threading, queue
    build_harness()
    e = dict(os.environ)
    e.setdefault("RUST_MIN_STACK", "268435456")
    e["RUST_BACKTRACE"] = "0"
    e.setdefault("GVH_MAX_JOBS", "250")      # workers retire after this many jobs; the loop below starts another one
    if env:
        e.update(env)
    results = {}
    lock = threading.Lock()
    chunks = [jobs[i::workers] for i in range(workers)]
    deadline = time.time() + total_timeout

    def work(chunk):
        remaining = list(chunk)
        while remaining and time.time() < deadline:
            p = subprocess.Popen([GVH] + list(args), stdin=subprocess.PIPE, stdout=subprocess.PIPE,
                                 stderr=subprocess.PIPE, text=True, env=e, cwd=VERIF, bufsize=1)
            errbuf = []
            def drain():
                for l in p.stderr:
                    errbuf.append(l)
                    if len(errbuf) > 200:
                        del errbuf[:100]
            threading.Thread(target=drain, daemon=True).start()
            def feed(rem=list(remaining)):
                try:
                    for j in rem:
                        p.stdin.write(json.dumps(j) + "\n")
                    p.stdin.close()
                except Exception:
                    pass
            threading.Thread(target=feed, daemon=True).start()
            q = queue.Queue()
            def reader():
                for l in p.stdout:
                    q.put(l)
                q.put(None)
            threading.Thread(target=reader, daemon=True).start()
            current = None
            partial = []
            done = set()
            hung = False
            while True:
                try:
                    l = q.get(timeout=job_timeout)
                except queue.Empty:
                    hung = True
                    p.kill()
                    break
                if l is None:
                    break
                l = l.strip()
                if SCRATCH:
                    l = l.replace(REPO + "/", "/repo/")       # panic locations name the scratch worktree
                if not l.startswith("{"):
                    continue
                try:
                    d = json.loads(l)
                except Exception:
                    continue
                if "start" in d and len(d) == 1:
                    current = d["start"]
                    partial = []
                elif "log" in d and len(d) == 1:
                    partial.append(d["log"])
                elif "id" in d:
                    with lock:
                        results[d["id"]] = d
                    done.add(d["id"])
                    current = None
            p.wait()
            remaining = [j for j in remaining if j["id"] not in done]
            if current is not None and current not in done:
                st = "hang" if hung else "crash"
                with lock:
                    results[current] = {"id": current, "status": st, "msg": "%s (exit %s) %s" % (st, p.returncode, "".join(errbuf[-30:])[-1500:]), "log": partial}
                remaining = [j for j in remaining if j["id"] != current]
            elif remaining and not done:
                # worker died before starting anything: tool problem
                with lock:
                    for j in remaining:
                        results[j["id"]] = {"id": j["id"], "status": "toolerror", "msg": "worker exited %s: %s" % (p.returncode, "".join(errbuf[-10:])[-800:]), "log": []}
                return

    ths = [threading.Thread(target=work, args=(c,)) for c in chunks if c]
    for t in ths:
        t.start()
    for t in ths:
        t.join()
    if retry_hangs:
        # a job that did not answer in time is repeated with few workers and three times the limit before it counts
        # as a hang: a loaded machine must not look like a defect
        hung = [j for j in jobs if results.get(j["id"], {}).get("status") == "hang"]
        if hung:
            again = run_pool(args, hung, workers=min(4, len(hung)), job_timeout=job_timeout * 3, env=env,
                             total_timeout=total_timeout, retry_hangs=False)
            for j in hung:
                if again.get(j["id"], {}).get("status") not in (None, "hang"):
                    results[j["id"]] = again[j["id"]]
    return results

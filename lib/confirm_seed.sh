#!/bin/bash
# usage: confirm_seed.sh <worktree> <seed dir> [cargo extra args]
# Confirms in the scratch worktree that the demonstration fails with the patch and passes without it.
WT=$1; SD=$2; shift 2
cd $WT || exit 2
export CARGO_TARGET_DIR=$WT/target
git checkout -q -- . 2>/dev/null
cp $SD/demo.rs tests/demo.rs
{
echo "== without patch"; cargo test --offline -j 8 --test demo "$@" 2>&1 | grep -E "^test |test result|error(\[|:)" | head -20
git apply $SD/patch.diff || echo "PATCH DOES NOT APPLY"
echo "== with patch"; cargo test --offline -j 8 --test demo "$@" 2>&1 | grep -E "^test |test result|error(\[|:)" | head -20
git checkout -q -- .
} > $SD/confirm.txt 2>&1
rm -f tests/demo.rs

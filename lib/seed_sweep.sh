#!/bin/bash
# usage: seed_sweep.sh <seed dir name> <check id> [<check id> ...]
# Applies the seeded change to /repo, runs the quick tier of the given checks, restores /repo.  Output: seeded/<name>/sweep.txt
S=$1; shift
D=/verif/seeded/$S
cd /repo || exit 2
if [ -n "$(git status --porcelain)" ]; then echo "/repo is not clean" >&2; exit 2; fi
git apply $D/patch.diff || { echo "PATCH DOES NOT APPLY" > $D/sweep.txt; exit 1; }
{
echo "seed $S applied to /repo at $(git rev-parse --short HEAD) on $(date -u +%FT%TZ)"
for c in "$@"; do
  echo "== ./check $c --tier quick"
  (cd /verif && ./check $c --tier quick 2>&1 | grep -E "^VIOLATION|^  key=|rc=" | head -12)
done
} > $D/sweep.txt 2>&1
git checkout -- .

"""Parser for Rust `{:?}` output of gluon ASTs; normalisation (positions, symbol addresses, redundant parentheses)."""
import re

TOK = re.compile(r'\s*("(?:[^"\\]|\\.)*"|\'(?:[^\'\\]|\\.)*\'|0x[0-9a-fA-F]+|[A-Za-z_][A-Za-z0-9_]*|-?\d+(?:\.\d+)?(?:e-?\d+)?|\.\.|[{}()\[\],:#?<>=+*/%&|!^~@.$\\-])')


def tokens(s):
    out, i = [], 0
    n = len(s)
    while i < n:
        m = TOK.match(s, i)
        if not m:
            if s[i].isspace():
                i += 1
                continue
            out.append(s[i]); i += 1
            continue
        out.append(m.group(1)); i = m.end()
    return out


class P:
    def __init__(self, toks):
        self.t = toks
        self.i = 0
    def peek(self):
        return self.t[self.i] if self.i < len(self.t) else None
    def eat(self, x=None):
        tok = self.peek()
        if x is not None and tok != x:
            raise ValueError("expected %r got %r at %d" % (x, tok, self.i))
        self.i += 1
        return tok
    def value(self):
        tok = self.peek()
        if tok == "[":
            self.eat()
            xs = []
            while self.peek() != "]":
                xs.append(self.value())
                if self.peek() == ",":
                    self.eat()
            self.eat("]")
            return ("list", xs)
        if tok == "(":
            self.eat()
            xs = []
            while self.peek() != ")":
                xs.append(self.value())
                if self.peek() == ",":
                    self.eat()
            self.eat(")")
            return ("tuple", xs)
        if tok is None:
            raise ValueError("eof")
        if re.match(r"[A-Za-z_]", tok):
            name = self.eat()
            if self.peek() == "{":
                self.eat()
                fields = []
                while self.peek() != "}":
                    k = self.eat()
                    self.eat(":")
                    fields.append((k, self.value()))
                    if self.peek() == ",":
                        self.eat()
                self.eat("}")
                node = ("struct", name, fields)
            elif self.peek() == "(":
                self.eat()
                xs = []
                while self.peek() != ")":
                    xs.append(self.value())
                    if self.peek() == ",":
                        self.eat()
                self.eat(")")
                node = ("call", name, xs)
            else:
                node = ("atom", name)
            # `Pointer { .. }:name` (symbols) and `a..b` (ranges)
            if self.peek() == ":" and node[0] == "struct" and node[1] == "Pointer":
                self.eat()
                rest = []
                while self.peek() not in (None, ",", "}", ")", "]"):
                    rest.append(self.eat())
                return ("sym", "".join(rest))
            if self.peek() == "..":
                self.eat()
                hi = self.value()
                return ("range", node, hi)
            return node
        self.eat()
        return ("atom", tok)


def parse_debug(s):
    p = P(tokens(s))
    v = p.value()
    return v


def span_of(node):
    """(start, end) of a Spanned struct, 0-based half-open, or None"""
    if node[0] == "struct" and node[1] == "Spanned":
        d = dict(node[2])
        r = d.get("span")
        if r and r[0] == "range":
            try:
                return int(r[1][2][0][1]) - 1, int(r[2][2][0][1]) - 1
            except Exception:
                return None
    return None


def normalise(node, src=None, problems=None):
    """drops positions, unwraps redundant parentheses (singleton tuples) and Spanned wrappers; with `src`, checks that
    the span of every integer literal and identifier delimits exactly its text"""
    k = node[0]
    if k == "struct":
        name, fields = node[1], node[2]
        if name == "Spanned":
            d = dict(fields)
            inner = normalise(d["value"], src, problems)
            if src is not None and problems is not None:
                sp = span_of(node)
                v = d["value"]
                if sp and v[0] == "call" and v[1] == "Literal" and v[2] and v[2][0][0] == "call" and v[2][0][1] == "Int":
                    want = v[2][0][2][0][1]
                    if src[sp[0]:sp[1]] != want:
                        problems.append("span of literal %s delimits %r" % (want, src[sp[0]:sp[1]]))
                if sp and v[0] == "call" and v[1] == "Ident":
                    sym = [x for x in _walk(v) if x[0] == "sym"]
                    if sym and re.match(r"^[A-Za-z_]\w*$", sym[0][1]) and src[sp[0]:sp[1]] != sym[0][1]:
                        problems.append("span of identifier %s delimits %r" % (sym[0][1], src[sp[0]:sp[1]]))
            return inner
        if name == "Tuple":
            d = dict(fields)
            el = d.get("elems")
            if el and el[0] == "list" and len(el[1]) == 1:
                return normalise(el[1][0], src, problems)
        return ("struct", name, [(f, normalise(v, src, problems)) for f, v in fields if f not in ("span",)])
    if k == "call":
        return ("call", node[1], [normalise(x, src, problems) for x in node[2]])
    if k in ("list", "tuple"):
        return (k, [normalise(x, src, problems) for x in node[1]])
    if k == "range":
        return ("range",)
    if k == "sym":
        return ("sym", re.sub(r"\?\d+", "?", node[1]))      # generated symbols carry a counter
    return node


def _walk(n):
    yield n
    for x in n[1:]:
        if isinstance(x, (list, tuple)):
            for y in (x if isinstance(x, list) else [x]):
                if isinstance(y, tuple):
                    for z in _walk(y):
                        yield z

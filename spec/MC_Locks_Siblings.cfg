SPECIFICATION Spec
CONSTANTS
  Procs = {"A", "B"}
  Scripts <- Siblings
INVARIANTS NoCyclicWait

------------------------------- MODULE LangW -------------------------------
(* Algorithm W (Damas-Milner) with Remy-style record presence types, in TLA+, over an untyped enumerator   *)
(* of the ML fragment of gluon: lambda, application, let (generalising), literals, if, `<` on Int,           *)
(* tuples, records over the fields {x, y} in canonical order, field access (row polymorphic), None / Some,   *)
(* arrays.  For every closed term TLC computes "untypable" or the principal type in canonical form; the     *)
(* harness compares acceptance and the reported type of gluon's (level-based) checker with it.               *)
(*                                                                                                         *)
(* Types:  [c |-> "int" | "str" | "bool"], [c |-> "var", n], [c |-> "fun" | "tup", a, b],                    *)
(*         [c |-> "opt" | "arr", a], [c |-> "rec", a (slot of x), b (slot of y)]                             *)
(* Slots:  [c |-> "abs"], [c |-> "pre", a], [c |-> "var", n]   (a field is absent, present, or unknown)       *)
EXTENDS Integers, Sequences, FiniteSets, TLC, Json

CONSTANTS MaxSize, MaxScope, Emit,
          Prods,     \* enabled productions (focused configurations)
          StartScope \* number of variables already in scope for HoleSpec (0 otherwise)

VARIABLES prefix, pending      \* pending: sequence of scope sizes of the holes still to fill
vars == <<prefix, pending>>

N(g, a) == [g |-> g, a |-> a]
Init == prefix = <<>> /\ pending = <<0>>

Fill(node, holes) ==
  /\ node.g \in Prods
  /\ prefix' = Append(prefix, node)
  /\ pending' = holes \o Tail(pending)
  /\ Len(prefix') + Len(pending') <= MaxSize

S == Head(pending)
Next ==
  /\ pending # <<>>
  /\ \/ \E i \in 1..S : Fill(N("var", i), <<>>)
     \/ \E g \in {"int", "str", "tt", "none"} : Fill(N(g, 0), <<>>)
     \/ (S < MaxScope /\ Fill(N("lam", 0), <<S + 1>>))
     \/ (S < MaxScope /\ Fill(N("let", 0), <<S, S + 1>>))
     \/ \E g \in {"app", "tup", "recxy", "arr2", "lt"} : Fill(N(g, 0), <<S, S>>)
     \/ \E g \in {"recx", "px", "py", "some"} : Fill(N(g, 0), <<S>>)
     \/ Fill(N("if", 0), <<S, S, S>>)
     \/ (S < MaxScope /\ Fill(N("mopt", 0), <<S, S + 1, S>>))      \* match e with | Some v -> a | None -> b
Spec == Init /\ [][Next]_vars
\* Skeleton start (generalisation-sensitive family, C02):  (\x -> let g = \y -> [H] in [K]) [A]
\* H sees x, y;  K sees x, g;  A is closed.  A checker that generalises g over a variable tied to x's type accepts
\* programs of this family which go wrong.
SkelInit == prefix = <<N("app", 0), N("lam", 0), N("let", 0), N("lam", 0)>> /\ pending = <<2, 2, 0>>
SkelSpec == SkelInit /\ [][Next]_vars
\* a single hole whose scope already holds StartScope variables: the fillers of H, K and A are enumerated separately
\* and the check forms their product (the skeleton family at the needed size has ~10^8 members as one state space)
HoleInit == prefix = <<>> /\ pending = <<StartScope>>
HoleSpec == HoleInit /\ [][Next]_vars
EmittedRaw == (Emit /\ pending = <<>>) => PrintT(<<"TERM", ToJson([p |-> [j \in DOMAIN prefix |-> <<prefix[j].g, prefix[j].a>>]])>>)

Arity(g) == CASE g \in {"var", "int", "str", "tt", "none"} -> 0
              [] g \in {"lam", "recx", "px", "py", "some"} -> 1
              [] g \in {"app", "let", "tup", "recxy", "arr2", "lt"} -> 2
              [] g \in {"if", "mopt"} -> 3

---------------------------------------------------------------------------
(* types, substitutions *)
T0(c) == [c |-> c]
TV(n) == [c |-> "var", n |-> n]
T1(c, a) == [c |-> c, a |-> a]
T2(c, a, b) == [c |-> c, a |-> a, b |-> b]
Abs == [c |-> "abs"]
Pre(a) == [c |-> "pre", a |-> a]

\* state threaded through inference: substitution (var -> type), next fresh variable, failure flag
St0 == [sub |-> <<>>, next |-> 1, ok |-> TRUE]
Fail(st) == [st EXCEPT !.ok = FALSE]
Fresh(st) == [t |-> TV(st.next), st |-> [st EXCEPT !.next = @ + 1]]
Bound(st, n) == n \in DOMAIN st.sub
Bind(st, n, t) == [st EXCEPT !.sub = (n :> t) @@ @]

RECURSIVE Find(_, _)
Find(t, st) == IF t.c = "var" /\ Bound(st, t.n) THEN Find(st.sub[t.n], st) ELSE t

Kids(t) == CASE t.c \in {"fun", "tup", "rec"} -> <<t.a, t.b>>
             [] t.c \in {"opt", "arr", "pre"} -> <<t.a>>
             [] OTHER -> <<>>

RECURSIVE Occurs(_, _, _)
Occurs(n, t, st) ==
  LET u == Find(t, st) IN
  IF u.c = "var" THEN u.n = n
  ELSE \E i \in DOMAIN Kids(u) : Occurs(n, Kids(u)[i], st)

RECURSIVE Unify(_, _, _)
Unify(t1, t2, st) ==
  IF ~st.ok THEN st
  ELSE LET a == Find(t1, st) b == Find(t2, st) IN
       IF a.c = "var" /\ b.c = "var" /\ a.n = b.n THEN st
       ELSE IF a.c = "var" THEN (IF Occurs(a.n, b, st) THEN Fail(st) ELSE Bind(st, a.n, b))
       ELSE IF b.c = "var" THEN (IF Occurs(b.n, a, st) THEN Fail(st) ELSE Bind(st, b.n, a))
       ELSE IF a.c # b.c THEN Fail(st)
       ELSE IF Len(Kids(a)) = 0 THEN st
       ELSE IF Len(Kids(a)) = 1 THEN Unify(a.a, b.a, st)
       ELSE Unify(a.b, b.b, Unify(a.a, b.a, st))

RECURSIVE FV(_, _)
FV(t, st) ==
  LET u == Find(t, st) IN
  IF u.c = "var" THEN {u.n} ELSE UNION {FV(Kids(u)[i], st) : i \in DOMAIN Kids(u)}

\* schemes: [vars |-> set of generalised variables, t |-> type]
Mono(t) == [vars |-> {}, t |-> t]
EnvFV(env, st) == UNION {FV(env[i].t, st) \ env[i].vars : i \in DOMAIN env}
Generalise(env, t, st) == [vars |-> FV(t, st) \ EnvFV(env, st), t |-> t]

\* instantiate: copy the type replacing the generalised variables by fresh ones
RECURSIVE Copy(_, _, _)
Copy(t, m, st) ==          \* m: generalised var -> fresh var
  LET u == Find(t, st) IN
  IF u.c = "var" THEN (IF u.n \in DOMAIN m THEN TV(m[u.n]) ELSE u)
  ELSE IF Len(Kids(u)) = 0 THEN u
  ELSE IF Len(Kids(u)) = 1 THEN T1(u.c, Copy(u.a, m, st))
  ELSE T2(u.c, Copy(u.a, m, st), Copy(u.b, m, st))

RECURSIVE Number(_, _)
Number(s, k) == IF s = {} THEN <<>> ELSE LET x == CHOOSE y \in s : \A z \in s : y <= z IN (x :> k) @@ Number(s \ {x}, k + 1)
Inst(sc, st) ==
  LET vs == {v \in sc.vars : TRUE}
      m  == Number(vs, st.next)
  IN [t |-> Copy(sc.t, m, st), st |-> [st EXCEPT !.next = @ + Cardinality(vs)]]

---------------------------------------------------------------------------
(* inference over the prefix-coded term *)
Ends(p) ==
  LET E[i \in 1..Len(p)] ==
        LET n == Arity(p[i].g) IN
        IF n = 0 THEN i + 1
        ELSE LET a == E[i + 1] IN IF n = 1 THEN a ELSE LET b == E[a] IN IF n = 2 THEN b ELSE E[b]
  IN E

RECURSIVE W(_, _, _, _, _)
W(p, E, i, env, st) ==
  IF ~st.ok THEN [t |-> T0("int"), st |-> st] ELSE
  LET g == p[i].g
      c1 == i + 1
      c2 == E[i + 1]
      c3 == E[c2]
  IN
  CASE g = "var"  -> Inst(env[p[i].a], st)
    [] g = "int"  -> [t |-> T0("int"), st |-> st]
    [] g = "str"  -> [t |-> T0("str"), st |-> st]
    [] g = "tt"   -> [t |-> T0("bool"), st |-> st]
    [] g = "none" -> LET f == Fresh(st) IN [t |-> T1("opt", f.t), st |-> f.st]
    [] g = "lam"  -> LET f == Fresh(st)
                         b == W(p, E, c1, Append(env, Mono(f.t)), f.st)
                     IN [t |-> T2("fun", f.t, b.t), st |-> b.st]
    [] g = "app"  -> LET f == W(p, E, c1, env, st)
                         a == W(p, E, c2, env, f.st)
                         r == Fresh(a.st)
                     IN [t |-> r.t, st |-> Unify(f.t, T2("fun", a.t, r.t), r.st)]
    [] g = "let"  -> LET a == W(p, E, c1, env, st) IN
                     IF ~a.st.ok THEN a
                     ELSE W(p, E, c2, Append(env, Generalise(env, a.t, a.st)), a.st)
    [] g = "if"   -> LET c == W(p, E, c1, env, st)
                         s1 == Unify(c.t, T0("bool"), c.st)
                         a == W(p, E, c2, env, s1)
                         b == W(p, E, c3, env, a.st)
                     IN [t |-> a.t, st |-> Unify(a.t, b.t, b.st)]
    [] g = "mopt" -> LET e == W(p, E, c1, env, st)
                         v == Fresh(e.st)
                         s1 == Unify(e.t, T1("opt", v.t), v.st)
                         a == W(p, E, c2, Append(env, Mono(v.t)), s1)
                         b == W(p, E, c3, env, a.st)
                     IN [t |-> a.t, st |-> Unify(a.t, b.t, b.st)]
    [] g = "lt"   -> LET a == W(p, E, c1, env, st)
                         b == W(p, E, c2, env, Unify(a.t, T0("int"), a.st))
                     IN [t |-> T0("bool"), st |-> Unify(b.t, T0("int"), b.st)]
    [] g = "tup"  -> LET a == W(p, E, c1, env, st) b == W(p, E, c2, env, a.st) IN [t |-> T2("tup", a.t, b.t), st |-> b.st]
    [] g = "recx" -> LET a == W(p, E, c1, env, st) IN [t |-> T2("rec", Pre(a.t), Abs), st |-> a.st]
    [] g = "recxy" -> LET a == W(p, E, c1, env, st) b == W(p, E, c2, env, a.st) IN [t |-> T2("rec", Pre(a.t), Pre(b.t)), st |-> b.st]
    [] g = "px"   -> LET e == W(p, E, c1, env, st)
                         v == Fresh(e.st)
                         f == Fresh(v.st)
                     IN [t |-> v.t, st |-> Unify(e.t, T2("rec", Pre(v.t), f.t), f.st)]
    [] g = "py"   -> LET e == W(p, E, c1, env, st)
                         v == Fresh(e.st)
                         f == Fresh(v.st)
                     IN [t |-> v.t, st |-> Unify(e.t, T2("rec", f.t, Pre(v.t)), f.st)]
    [] g = "some" -> LET a == W(p, E, c1, env, st) IN [t |-> T1("opt", a.t), st |-> a.st]
    [] g = "arr2" -> LET a == W(p, E, c1, env, st) b == W(p, E, c2, env, a.st) IN [t |-> T1("arr", a.t), st |-> Unify(a.t, b.t, b.st)]

\* fully resolved type with variables renumbered by first occurrence (left to right)
RECURSIVE Resolve(_, _)
Resolve(t, st) ==
  LET u == Find(t, st) IN
  IF Len(Kids(u)) = 0 THEN u
  ELSE IF Len(Kids(u)) = 1 THEN T1(u.c, Resolve(u.a, st))
  ELSE T2(u.c, Resolve(u.a, st), Resolve(u.b, st))

RECURSIVE VarsInOrder(_)
VarsInOrder(t) ==
  IF t.c = "var" THEN <<t.n>>
  ELSE IF Len(Kids(t)) = 0 THEN <<>>
  ELSE IF Len(Kids(t)) = 1 THEN VarsInOrder(t.a)
  ELSE VarsInOrder(t.a) \o VarsInOrder(t.b)

RECURSIVE Dedup(_, _)
Dedup(s, seen) == IF s = <<>> THEN <<>> ELSE IF Head(s) \in seen THEN Dedup(Tail(s), seen) ELSE <<Head(s)>> \o Dedup(Tail(s), seen \cup {Head(s)})

RECURSIVE Show(_, _)
Show(t, idx) ==      \* idx: variable -> canonical number
  IF t.c = "var" THEN <<"v", idx[t.n]>>
  ELSE IF Len(Kids(t)) = 0 THEN <<t.c>>
  ELSE IF Len(Kids(t)) = 1 THEN <<t.c, Show(t.a, idx)>>
  ELSE <<t.c, Show(t.a, idx), Show(t.b, idx)>>

Principal(p) ==
  LET r == W(p, Ends(p), 1, <<>>, St0) IN
  IF ~r.st.ok THEN [ok |-> FALSE, t |-> <<>>]
  ELSE LET t == Resolve(r.t, r.st)
           order == Dedup(VarsInOrder(t), {})
           idx == [n \in {order[i] : i \in DOMAIN order} |-> CHOOSE i \in DOMAIN order : order[i] = n]
       IN [ok |-> TRUE, t |-> Show(t, idx)]

Done == pending = <<>>
\* in-model properties: W is deterministic and its result does not depend on how the state is threaded
\* (re-running gives the same answer), and the principal type of a typable term contains no unresolved structure
Emitted == (Emit /\ Done) => LET r == Principal(prefix) IN
             PrintT(<<"TERM", ToJson([p |-> [j \in DOMAIN prefix |-> <<prefix[j].g, prefix[j].a>>], ok |-> r.ok, t |-> r.t])>>)
Idempotent == Done => Principal(prefix) = Principal(prefix)
=============================================================================

------------------------------- MODULE Prims -------------------------------
(* Domain contract of the exported std primitives (C06): for every primitive and every tuple of boundary     *)
(* values of its argument types the outcome is a Value or an Error (returned to the host) - never an abort,   *)
(* a panic or a hang.  The table of primitives (module, name, argument types) is read from the running VM     *)
(* by the harness and handed to TLC in MC_Prims.tla; TLC enumerates the finite product primitive x tuples.     *)
EXTENDS Integers, Sequences, FiniteSets, TLC, Json

CONSTANTS Table,       \* sequence of [m |-> module, f |-> name, args |-> sequence of argument type names]
          NBoundary    \* [type name |-> number of boundary values of that type]  (values live in the harness)

VARIABLES i,       \* index of the primitive being enumerated
          done

vars == <<i, done>>
Init == i = 1 /\ done = FALSE

RECURSIVE Tuples(_)
\* all tuples of boundary-value indices for the argument types ts
Tuples(ts) == IF ts = <<>> THEN {<<>>}
              ELSE {<<k>> \o rest : k \in 1..NBoundary[Head(ts)], rest \in Tuples(Tail(ts))}

\* the contract: outcome classes a call may have
Allowed == {"value", "error"}
Forbidden == {"abort", "panic", "hang"}

Next == /\ i <= Len(Table)
        /\ i' = i + 1
        /\ done' = (i' > Len(Table))

Spec == Init /\ [][Next]_vars

Calls(k) == {[p |-> k, t |-> t] : t \in Tuples(Table[k].args)}

\* every primitive has at least one call, every call's argument indices are within the boundary sets
WellFormed == \A k \in 1..Len(Table) : Calls(k) # {} /\ \A c \in Calls(k) : \A j \in DOMAIN c.t : c.t[j] \in 1..NBoundary[Table[k].args[j]]

EmitCalls == (i <= Len(Table)) => PrintT(<<"CALLS", ToJson([p |-> i, ts |-> Calls(i)])>>)
=============================================================================

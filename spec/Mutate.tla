------------------------------- MODULE Mutate -------------------------------
(* Grammar-aware mutations of a valid program, seen as a sequence of tokens on lines (C09, C20): delete, duplicate,  *)
(* or swap tokens, re-indent a line, truncate.  Positions are abstract (Slots equal fractions of the token          *)
(* sequence); TLC enumerates every edit script up to MaxEdits edits, the harness applies each script to every base   *)
(* program.  The invariant states what a script may do to the token count (so that scripts stay small edits).       *)
EXTENDS Integers, Sequences, FiniteSets, TLC, Json

CONSTANTS Slots, MaxEdits, Emit

Ops == {"delete", "duplicate", "swap", "truncate", "indent", "dedent", "implicit", "bang"}
\* implicit: the token becomes an implicit argument (`x` -> `?x`); bang: an identifier becomes a macro name (`f` -> `f!`)
VARIABLES script, delta      \* delta: change of the token count in slots (for the invariant)
vars == <<script, delta>>
Init == script = <<>> /\ delta = 0
Edit(op, i) ==
  /\ Len(script) < MaxEdits
  /\ (IF script = <<>> THEN TRUE ELSE script[Len(script)][1] # "truncate")      \* nothing follows a truncation
  /\ script' = Append(script, <<op, i>>)
  /\ delta' = delta + (CASE op = "delete" -> -1 [] op = "duplicate" -> 1 [] op = "truncate" -> -(Slots - i) [] OTHER -> 0)
Next == \E op \in Ops, i \in 1..Slots : Edit(op, i)
Spec == Init /\ [][Next]_vars
SmallEdit == delta >= -Slots - MaxEdits /\ delta <= MaxEdits
EmitScript == (Emit /\ script # <<>>) => PrintT(<<"EDIT", ToJson(script)>>)
=============================================================================

SPECIFICATION Spec
CONSTANTS
  MaxChan = 2
  MaxCell = 2
  MaxLazy = 2
  MaxThread = 2
  MaxSteps = 10
  Ideal = TRUE
  ResumeFailed = TRUE
  Emit = TRUE
INVARIANTS EmitWalk FifoExactlyOnce ForceOnce ForceErrors NoHang
CHECK_DEADLOCK FALSE

------------------------------- MODULE Conc -------------------------------
(* Channels, references, lazy values and cooperative (green) threads of gluon.           *)
(*                                                                                       *)
(* Mirrors vm/src/channel.rs (channel/send/recv, spawn/resume/yield), vm/src/reference.rs *)
(* (ref/load/<-), vm/src/lazy.rs (lazy/force) at the level of the std API.  Exactly one   *)
(* green thread runs at a time: `rstack` is the chain of resumers, its last element runs. *)
(* Control moves only at resume / yield / completion / death of a thread.                 *)
(*                                                                                       *)
(* Ideal = TRUE  is the documented contract (the oracle used for replay into the VM).     *)
(* Ideal = FALSE transcribes what lazy.rs does when a thunk fails (the lazy stays         *)
(*               blackholed by the failing thread) and is used to predict departures.     *)
EXTENDS Integers, Sequences, FiniteSets, TLC, Json

CONSTANTS MaxChan, MaxCell, MaxLazy, MaxThread, MaxSteps, Ideal, Emit,
          ResumeFailed   \* TRUE: a thread which died with an error may be resumed again and answers like a finished one (FALSE leaves that step out: before the repair a08a2bf in /repo the VM panicked there)

Val   == 1..2
Chan  == 1..MaxChan
Cell  == 1..MaxCell
Lz    == 1..MaxLazy
Thr   == 0..MaxThread          \* 0 is the main thread

VARIABLES
  queue,    \* [Chan -> Seq(Val)]     contents of each created channel
  nchan,    \* number of channels created
  cell,     \* [Cell -> Val]
  ncell,
  lz,       \* [Lz -> [st, body, val, by]]  st \in {"thunk","value","failed","hole"}
  nlz,
  status,   \* [Thr -> {"none","new","susp","run","dead","failed","stuck"}]
  nthr,     \* number of spawned threads
  rstack,   \* Seq(Thr): chain of resumers, Head = main, last = running thread
  vis,      \* [Thr -> [ch, ce, lz, th : SUBSET ...]]  what each thread's code can name
  sent, rcvd, \* history per channel (for FifoExactlyOnce)
  ticks,    \* [Lz -> Nat] how often the thunk of a lazy was run
  hist      \* sequence of step records (the behaviour handed to the replay)

vars == <<queue, nchan, cell, ncell, lz, nlz, status, nthr, rstack, vis, sent, rcvd, ticks, hist>>
View == <<queue, nchan, cell, ncell, lz, nlz, status, nthr, rstack, vis, sent, rcvd, ticks, Len(hist)>>

Running == rstack[Len(rstack)]
NoVis   == [ch |-> {}, ce |-> {}, lz |-> {}, th |-> {}]

Init ==
  /\ queue = [c \in Chan |-> <<>>] /\ nchan = 0
  /\ cell = [r \in Cell |-> 0] /\ ncell = 0
  /\ lz = [l \in Lz |-> [st |-> "none", body |-> [k |-> "none"], val |-> 0, by |-> 0]] /\ nlz = 0
  /\ status = [t \in Thr |-> IF t = 0 THEN "run" ELSE "none"] /\ nthr = 0
  /\ rstack = <<0>>
  /\ vis = [t \in Thr |-> NoVis]
  /\ sent = [c \in Chan |-> <<>>] /\ rcvd = [c \in Chan |-> <<>>]
  /\ ticks = [l \in Lz |-> 0]
  /\ hist = <<>>

\* One step record.  t: acting thread, op/a/b: operation and arguments, obs: what the program
\* observes (0 = nothing), tk: lazies whose thunk ran (in order), ret: thread which regains
\* control (or -1) with robs its observation of `resume`, cls: pre-state class (for coverage
\* and for keying findings), d: Len(rstack) after the step.
Step(t, op, a, b, obs, tk, ret, robs, cls, d) ==
  [t |-> t, op |-> op, a |-> a, b |-> b, obs |-> obs, tk |-> tk, ret |-> ret, robs |-> robs, cls |-> cls, d |-> d]

Log(rec) == hist' = Append(hist, rec)
CanStep == Len(hist) < MaxSteps

---------------------------------------------------------------------------
(* Channels *)
NewChan(t) ==
  /\ CanStep /\ nchan < MaxChan
  /\ LET c == nchan + 1 IN
     /\ nchan' = c
     /\ vis' = [vis EXCEPT ![t].ch = @ \cup {c}]
     /\ Log(Step(t, "chan", c, 0, 0, <<>>, -1, 0, <<"chan">>, Len(rstack)))
  /\ UNCHANGED <<queue, cell, ncell, lz, nlz, status, nthr, rstack, sent, rcvd, ticks>>

Send(t, c, v) ==
  /\ CanStep /\ c \in vis[t].ch
  /\ queue' = [queue EXCEPT ![c] = Append(@, v)]
  /\ sent' = [sent EXCEPT ![c] = Append(@, v)]
  /\ Log(Step(t, "send", c, v, 1, <<>>, -1, 0, <<"send", IF queue[c] = <<>> THEN "empty" ELSE "nonempty">>, Len(rstack)))
  /\ UNCHANGED <<nchan, cell, ncell, lz, nlz, status, nthr, rstack, vis, rcvd, ticks>>

\* recv never blocks: an empty queue answers "empty" (obs = 0)
Recv(t, c) ==
  /\ CanStep /\ c \in vis[t].ch
  /\ IF queue[c] = <<>>
       THEN /\ Log(Step(t, "recv", c, 0, 0, <<>>, -1, 0, <<"recv", "empty">>, Len(rstack)))
            /\ UNCHANGED <<queue, rcvd>>
       ELSE /\ queue' = [queue EXCEPT ![c] = Tail(@)]
            /\ rcvd' = [rcvd EXCEPT ![c] = Append(@, Head(queue[c]))]
            /\ Log(Step(t, "recv", c, 0, Head(queue[c]), <<>>, -1, 0,
                        <<"recv", IF Len(queue[c]) = 1 THEN "one" ELSE "many">>, Len(rstack)))
  /\ UNCHANGED <<nchan, cell, ncell, lz, nlz, status, nthr, rstack, vis, sent, ticks>>

---------------------------------------------------------------------------
(* References *)
NewCell(t, v) ==
  /\ CanStep /\ ncell < MaxCell
  /\ LET r == ncell + 1 IN
     /\ ncell' = r
     /\ cell' = [cell EXCEPT ![r] = v]
     /\ vis' = [vis EXCEPT ![t].ce = @ \cup {r}]
     /\ Log(Step(t, "ref", r, v, 0, <<>>, -1, 0, <<"ref">>, Len(rstack)))
  /\ UNCHANGED <<queue, nchan, lz, nlz, status, nthr, rstack, sent, rcvd, ticks>>

Load(t, r) ==
  /\ CanStep /\ r \in vis[t].ce
  /\ Log(Step(t, "load", r, 0, cell[r], <<>>, -1, 0, <<"load">>, Len(rstack)))
  /\ UNCHANGED <<queue, nchan, cell, ncell, lz, nlz, status, nthr, rstack, vis, sent, rcvd, ticks>>

Store(t, r, v) ==
  /\ CanStep /\ r \in vis[t].ce
  /\ cell' = [cell EXCEPT ![r] = v]
  /\ Log(Step(t, "store", r, v, 0, <<>>, -1, 0, <<"store", IF cell[r] = v THEN "same" ELSE "diff">>, Len(rstack)))
  /\ UNCHANGED <<queue, nchan, ncell, lz, nlz, status, nthr, rstack, vis, sent, rcvd, ticks>>

---------------------------------------------------------------------------
(* Lazy values.  Bodies: const v | fail | self (forces itself) | other l (forces lazy l) *)
Bodies(t) == {[k |-> "const", x |-> v] : v \in Val} \cup {[k |-> "fail", x |-> 0], [k |-> "self", x |-> 0]}
             \cup {[k |-> "other", x |-> l] : l \in vis[t].lz}

NewLazy(t, body) ==
  /\ CanStep /\ nlz < MaxLazy
  /\ LET l == nlz + 1 IN
     /\ nlz' = l
     /\ lz' = [lz EXCEPT ![l] = [st |-> "thunk", body |-> body, val |-> 0, by |-> 0]]
     /\ vis' = [vis EXCEPT ![t].lz = @ \cup {l}]
     /\ Log(Step(t, "lazy", l, body.x, 0, <<>>, -1, 0, <<"lazy", body.k>>, Len(rstack)))
  /\ UNCHANGED <<queue, nchan, cell, ncell, status, nthr, rstack, sent, rcvd, ticks>>

\* Result of forcing l by thread t in lazy-table z: [z: new table, res: value or 0 = error,
\* tk: thunks run, hang: TRUE if (as coded) the force would wait for ever]
RECURSIVE ForceRes(_, _, _)
ForceRes(z, l, t) ==
  CASE z[l].st = "value"  -> [z |-> z, res |-> z[l].val, tk |-> <<>>, hang |-> FALSE]
    [] z[l].st = "failed" -> [z |-> z, res |-> 0, tk |-> <<>>, hang |-> FALSE]
    [] z[l].st = "hole"   -> \* only when ~Ideal: blackholed by z[l].by for ever
                             [z |-> z, res |-> 0, tk |-> <<>>, hang |-> (z[l].by # t)]
    [] z[l].st = "thunk"  ->
         LET bad == IF Ideal THEN "failed" ELSE "hole"
             fail(zz, tk) == [z |-> [zz EXCEPT ![l].st = bad, ![l].by = t], res |-> 0, tk |-> tk, hang |-> FALSE]
         IN CASE z[l].body.k = "const" ->
                   [z |-> [z EXCEPT ![l].st = "value", ![l].val = z[l].body.x], res |-> z[l].body.x, tk |-> <<l>>, hang |-> FALSE]
              [] z[l].body.k = "fail" -> fail(z, <<l>>)
              [] z[l].body.k = "self" -> fail(z, <<l>>)     \* re-entrant force of a blackhole: <<loop>>
              [] z[l].body.k = "other" ->
                   LET inner == ForceRes([z EXCEPT ![l].st = "busy"], z[l].body.x, t) IN
                   IF inner.hang THEN [z |-> inner.z, res |-> 0, tk |-> <<l>> \o inner.tk, hang |-> TRUE]
                   ELSE IF inner.res = 0 THEN fail(inner.z, <<l>> \o inner.tk)
                   ELSE [z |-> [inner.z EXCEPT ![l].st = "value", ![l].val = inner.res],
                         res |-> inner.res, tk |-> <<l>> \o inner.tk, hang |-> FALSE]
    [] OTHER -> [z |-> z, res |-> 0, tk |-> <<>>, hang |-> FALSE]   \* "busy": cannot occur (bodies only name older lazies)

Force(t, l) ==
  /\ CanStep /\ l \in vis[t].lz
  /\ LET r == ForceRes(lz, l, t)
         rel == IF lz[l].st \in {"failed", "hole"} THEN (IF lz[l].by = t THEN "samethread" ELSE "otherthread") ELSE "-"
         k == IF lz[l].st = "thunk" THEN lz[l].body.k ELSE "-"
     IN /\ lz' = r.z
        /\ ticks' = [x \in Lz |-> ticks[x] + Cardinality({i \in DOMAIN r.tk : r.tk[i] = x})]
        /\ IF r.hang
             THEN \* as coded: the forcing thread parks for ever; its resumer regains control
                  /\ t # 0
                  /\ status' = [status EXCEPT ![t] = "stuck"]
                  /\ rstack' = SubSeq(rstack, 1, Len(rstack) - 1)
                  /\ Log(Step(t, "force", l, 0, -1, r.tk, rstack[Len(rstack) - 1], 1, <<"force", lz[l].st, rel, k>>, Len(rstack) - 1))
             ELSE /\ Log(Step(t, "force", l, 0, r.res, r.tk, -1, 0, <<"force", lz[l].st, rel, k>>, Len(rstack)))
                  /\ UNCHANGED <<status, rstack>>
  /\ UNCHANGED <<queue, nchan, cell, ncell, nlz, nthr, vis, sent, rcvd>>

---------------------------------------------------------------------------
(* Green threads *)
Spawn(t) ==
  /\ CanStep /\ nthr < MaxThread
  /\ LET u == nthr + 1 IN
     /\ nthr' = u
     /\ status' = [status EXCEPT ![u] = "new"]
     /\ vis' = [vis EXCEPT ![u] = vis[t], ![t].th = @ \cup {u}]
     /\ Log(Step(t, "spawn", u, 0, 0, <<>>, -1, 0, <<"spawn">>, Len(rstack)))
  /\ UNCHANGED <<queue, nchan, cell, ncell, lz, nlz, rstack, sent, rcvd, ticks>>

\* resume of a runnable thread transfers control; the observation arrives when control returns
Resume(t, u) ==
  /\ CanStep /\ u \in vis[t].th
  /\ \A i \in DOMAIN rstack : rstack[i] # u
  /\ (status[u] = "failed" => ResumeFailed)
  /\ IF status[u] \in {"new", "susp"}
       THEN /\ rstack' = Append(rstack, u)
            /\ status' = [status EXCEPT ![u] = "run"]
            /\ Log(Step(t, "resume", u, 0, 0, <<>>, -1, 0, <<"resume", status[u]>>, Len(rstack) + 1))
       ELSE \* dead (finished) or failed (died with an error): reported as an error value
            \* stuck (only ~Ideal): still pending, answers ok for ever
            /\ Log(Step(t, "resume", u, 0, IF status[u] = "stuck" THEN 1 ELSE 2, <<>>, -1, 0, <<"resume", status[u]>>, Len(rstack)))
            /\ UNCHANGED <<rstack, status>>
  /\ UNCHANGED <<queue, nchan, cell, ncell, lz, nlz, nthr, vis, sent, rcvd, ticks>>

Return(u, op, st, robs) ==
  /\ CanStep /\ u # 0
  /\ status' = [status EXCEPT ![u] = st]
  /\ rstack' = SubSeq(rstack, 1, Len(rstack) - 1)
  /\ Log(Step(u, op, 0, 0, 0, <<>>, rstack[Len(rstack) - 1], robs, <<op>>, Len(rstack) - 1))
  /\ UNCHANGED <<queue, nchan, cell, ncell, lz, nlz, nthr, vis, sent, rcvd, ticks>>

Yield(u)  == Return(u, "yield", "susp", 1)
Finish(u) == Return(u, "finish", "dead", 1)
Die(u)    == Return(u, "die", "failed", 3)      \* uncaught error: the resumer sees the error

Next ==
  LET t == Running IN
    \/ NewChan(t)
    \/ \E c \in Chan, v \in Val : Send(t, c, v)
    \/ \E c \in Chan : Recv(t, c)
    \/ \E v \in Val : NewCell(t, v)
    \/ \E r \in Cell : Load(t, r)
    \/ \E r \in Cell, v \in Val : Store(t, r, v)
    \/ \E b \in Bodies(t) : NewLazy(t, b)
    \/ \E l \in Lz : Force(t, l)
    \/ Spawn(t)
    \/ \E u \in Thr : Resume(t, u)
    \/ Yield(t) \/ Finish(t) \/ Die(t)

Spec == Init /\ [][Next]_vars

---------------------------------------------------------------------------
(* Properties *)
TypeOK ==
  /\ nchan \in 0..MaxChan /\ ncell \in 0..MaxCell /\ nlz \in 0..MaxLazy /\ nthr \in 0..MaxThread
  /\ Len(rstack) >= 1 /\ rstack[1] = 0
  /\ \A t \in Thr : status[t] = "run" <=> (\E i \in DOMAIN rstack : rstack[i] = t)

\* every sent value is received exactly once and in sending order
FifoExactlyOnce == \A c \in Chan : sent[c] = rcvd[c] \o queue[c]

\* recv is enabled whatever the queue holds (never blocks)
RecvNeverBlocks == \A c \in vis[Running].ch : CanStep => ENABLED Recv(Running, c)

\* a load observes the most recent store: checked on the history
LastWrite ==
  \A i \in DOMAIN hist : hist[i].op = "load" =>
     LET ws == {j \in 1..(i-1) : hist[j].op \in {"store", "ref"} /\ hist[j].a = hist[i].a} IN
       ws # {} /\ hist[i].obs = hist[CHOOSE j \in ws : \A k \in ws : k <= j].b

\* the computation of a lazy runs at most once, every successful force returns the same value
ForceOnce ==
  /\ \A l \in Lz : ticks[l] <= 1
  /\ \A i, j \in DOMAIN hist :
        (hist[i].op = "force" /\ hist[j].op = "force" /\ hist[i].a = hist[j].a /\ hist[i].obs > 0 /\ hist[j].obs > 0)
          => hist[i].obs = hist[j].obs

\* once a force reported an error every later force of that lazy, from any thread, reports an error
ForceErrors ==
  \A i, j \in DOMAIN hist :
     (i < j /\ hist[i].op = "force" /\ hist[j].op = "force" /\ hist[i].a = hist[j].a /\ hist[i].obs = 0)
        => hist[j].obs = 0

\* nobody waits for ever
NoHang == \A t \in Thr : status[t] # "stuck"

\* a finished or failed thread answers resume with an error value
ResumeDead ==
  \A i \in DOMAIN hist : (hist[i].op = "resume" /\ hist[i].cls[2] \in {"dead", "failed"}) => hist[i].obs = 2

---------------------------------------------------------------------------
(* Emission of behaviours for the replay: one JSON line per complete walk *)
EmitWalk == (Emit /\ Len(hist) = MaxSteps) => PrintT(<<"WALK", ToJson(hist)>>)
=============================================================================

SPECIFICATION Spec
CONSTANTS
  NMod = 3
  MaxSteps = 8
  Emit = TRUE
  SkipDep = 0
INVARIANTS NeverStale EmitHist
CHECK_DEADLOCK FALSE

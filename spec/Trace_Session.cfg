SPECIFICATION TraceSpec
CONSTANTS
  NProg = 100000
  NVM = 100000
  MaxLen = 0
  Emit = FALSE
POSTCONDITION TraceAccepted
CHECK_DEADLOCK FALSE

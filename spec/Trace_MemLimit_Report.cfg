SPECIFICATION Spec
CONSTANTS
  Mode = "report"
POSTCONDITION Accepted
CHECK_DEADLOCK FALSE

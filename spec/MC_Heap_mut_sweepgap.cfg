SPECIFICATION Spec
CONSTANTS
  MaxObj = 3
  MaxThr = 3
  MaxStack = 1
  MaxSteps = 9
  Acts = {"Alloc", "Unroot", "Spawn", "Collect", "Push", "Pop"}
  TwoVMs = FALSE
  Emit = FALSE
  Traps = {}
  Mutant = "sweepgap"
VIEW View
INVARIANTS TypeOK Isolation NoDangling
PROPERTIES CollectExact CloneFaithful
CHECK_DEADLOCK FALSE

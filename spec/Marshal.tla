------------------------------- MODULE Marshal -------------------------------
(* C11.  The boundary between Rust and Gluon as a pair of functions over abstract values.

   Rust side: typed values  (a type term T and a value term v of that type).
   Gluon side: VM values as the VM represents them (vm/src/value.rs ValueRepr), which is what compiled Gluon code
   observes:  Int, Float, Byte, String, Tag n (a constructor without arguments), Data n fields, Array elems.

   Rep(T, v)     the value `Pushable` must leave on the stack (vm/src/api/mod.rs, codegen/src/pushable.rs) - equal to
                 the value the Gluon compiler builds for the literal of the same value;
   Get(T, g)     what `Getable` reads back;
   SerRep(T, v)  what the serde bridge pushes (vm/src/api/ser.rs).  SerMode = "faithful" is the bridge the property
                 describes (the same representation as Pushable); SerMode = "coded" is the bridge as written, which
                 is checked to be NOT injective / not type-faithful (the deviations are the known findings of C11);
   GType(T)      the Gluon type a Rust type stands for; a host request at Rust type T for a global of Gluon type G is
                 granted iff Accepts(GType(T), G).

   Atoms (numbers, strings) are opaque names: the model speaks about structure, the harness supplies the boundary
   values behind each name (lib/marshallib.py ATOMS).  TLC evaluates the round-trip laws as assumptions and emits one
   CASE line per (type, value) and one SIG line per (rust type, global) which the harness replays on the real VM. *)
EXTENDS Naturals, Sequences, FiniteSets, TLC, Json

CONSTANTS SerMode        \* "faithful" | "coded"

----------------------------------------------------------------------------
(* type terms *)
Base == { <<"int">>, <<"float">>, <<"byte">>, <<"char">>, <<"str">>, <<"bool">>, <<"unit">>, <<"rec">>, <<"en">>, <<"rec2">>, <<"en2">> }
(* rec  : Rust struct Rec { n, s, v } for the Gluon type { n : Int, s : String, v : Array Int }  (same order)
   rec2 : Rust struct Rec2 { a, b }   for the Gluon type { b : String, a : Int }                  (other order)
   en   : Rust enum En { Unit, One(i64), Two(String, f64) }
   en2  : Rust enum En2 { Dot, Rect { width, height }, Label { id, text } } for the Gluon type
          | Dot | Rect { height : Int, width : Int } | Label { text : String, id : Int }         (fields in another order)
   Compiled Gluon code reads record fields at the offsets of the Gluon type, so the order of the Gluon type decides. *)
Core == { <<"int">>, <<"str">>, <<"float">> }
Opt(t) == <<"opt", t>>
Vec(t) == <<"vec", t>>
Res(t, e) == <<"res", t, e>>
Tup(a, b) == <<"tup", a, b>>
MapT(t) == <<"map", t>>

Depth1 == { Opt(b) : b \in Base } \cup { Vec(b) : b \in Base \ { <<"unit">> } } \cup { Res(b, <<"str">>) : b \in Core }
          \cup { MapT(b) : b \in Core } \cup { Tup(<<"int">>, <<"str">>), Tup(<<"float">>, <<"bool">>), Tup(<<"str">>, <<"byte">>) }
Depth2 == { Opt(Opt(<<"int">>)), Opt(Vec(<<"int">>)), Opt(Tup(<<"int">>, <<"str">>)), Opt(Res(<<"int">>, <<"str">>)),
            Vec(Vec(<<"int">>)), Vec(Opt(<<"int">>)), Vec(Opt(<<"str">>)), Vec(Tup(<<"int">>, <<"str">>)), Vec(Res(<<"int">>, <<"str">>)),
            Res(Vec(<<"int">>), <<"str">>), Res(Opt(<<"int">>), <<"str">>), Res(<<"int">>, <<"int">>),
            Tup(<<"int">>, Tup(<<"float">>, <<"bool">>)), Tup(Vec(<<"int">>), Opt(<<"str">>)),
            MapT(Vec(<<"int">>)), MapT(Opt(<<"int">>)) }
Depth3 == { Vec(Vec(Vec(<<"int">>))), Opt(Vec(Opt(<<"int">>))), Vec(Opt(Vec(<<"str">>))), Opt(Opt(Opt(<<"int">>))),
            Res(Vec(Opt(<<"int">>)), <<"str">>), Vec(Tup(<<"int">>, Opt(<<"str">>))), Opt(Tup(Vec(<<"int">>), Opt(<<"str">>))),
            MapT(Vec(Opt(<<"int">>))), Vec(MapT(<<"int">>)), Opt(MapT(<<"str">>)) }
Types == Base \cup Depth1 \cup Depth2 \cup Depth3

----------------------------------------------------------------------------
(* values of a type, as a sequence (so that selections are deterministic) *)
AtomsOf(k) == CASE k = "int"   -> << "0", "1", "-1", "max", "min", "63" >>
                [] k = "float" -> << "0.0", "-0.0", "1.5", "nan", "inf", "minpos", "big" >>
                [] k = "byte"  -> << "0", "1", "255" >>
                [] k = "char"  -> << "a", "e_acute", "euro", "emoji", "nul" >>
                [] k = "str"   -> << "empty", "a", "multibyte", "nul", "long" >>

SeqMap(f(_), s) == [i \in 1..Len(s) |-> f(s[i])]
Take(s, n) == IF Len(s) <= n THEN s ELSE SubSeq(s, 1, n)
RECURSIVE Flatten(_)
Flatten(ss) == IF ss = <<>> THEN <<>> ELSE Head(ss) \o Flatten(Tail(ss))

RECURSIVE Vals(_)
Vals(t) ==
    LET k == t[1] IN
    CASE k \in {"int", "float", "byte", "char", "str"} -> SeqMap(LAMBDA a : <<k, a>>, AtomsOf(k))
      [] k = "bool" -> << <<"bool", "true">>, <<"bool", "false">> >>
      [] k = "unit" -> << <<"unit">> >>
      [] k = "rec"  -> << <<"rec", <<"int", "0">>, <<"str", "empty">>, <<"list", <<>> >> >>,
                          <<"rec", <<"int", "min">>, <<"str", "multibyte">>, <<"list", << <<"int", "1">>, <<"int", "max">> >> >> >> >>
      [] k = "en"   -> << <<"en", 0, <<>> >>, <<"en", 1, << <<"int", "max">> >> >>,
                          <<"en", 2, << <<"str", "multibyte">>, <<"float", "nan">> >> >>,
                          <<"en", 2, << <<"str", "empty">>, <<"float", "-0.0">> >> >> >>
      [] k = "rec2" -> << <<"rec2", <<"int", "1">>, <<"str", "a">> >>, <<"rec2", <<"int", "min">>, <<"str", "multibyte">> >>,
                          <<"rec2", <<"int", "0">>, <<"str", "empty">> >> >>
      [] k = "en2"  -> << <<"en2", 0, <<>> >>, <<"en2", 1, << <<"int", "1">>, <<"int", "max">> >> >>,    \* Rect: width, height
                          <<"en2", 1, << <<"int", "63">>, <<"int", "63">> >> >>,
                          <<"en2", 2, << <<"int", "-1">>, <<"str", "multibyte">> >> >> >>                 \* Label: id, text
      [] k = "opt"  -> << <<"none">> >> \o SeqMap(LAMBDA v : <<"some", v>>, Vals(t[2]))
      [] k = "res"  -> SeqMap(LAMBDA v : <<"ok", v>>, Take(Vals(t[2]), 4)) \o SeqMap(LAMBDA v : <<"err", v>>, Take(Vals(t[3]), 3))
      [] k = "vec"  -> LET vs == Vals(t[2]) IN
                       << <<"list", <<>> >> >> \o SeqMap(LAMBDA v : <<"list", <<v>> >>, Take(vs, 3))
                       \o << <<"list", vs>>, <<"list", Take(vs, 2) \o Take(vs, 2)>> >>
      [] k = "tup"  -> LET as == Vals(t[2])  bs == Vals(t[3]) IN
                       Flatten(SeqMap(LAMBDA a : SeqMap(LAMBDA b : <<"pair", a, b>>, Take(bs, 3)), Take(as, 3)))
                       \o << <<"pair", as[Len(as)], bs[Len(bs)]>> >>
      [] k = "map"  -> LET vs == Vals(t[2]) IN
                       << <<"map", <<>> >>, <<"map", << << "a", vs[1] >> >> >>,
                          <<"map", << << "a", vs[1] >>, << "multibyte", vs[Len(vs)] >>, << "empty", vs[1] >> >> >> >>

----------------------------------------------------------------------------
(* the representation Pushable must build *)
RECURSIVE Rep(_, _)
Rep(t, v) ==
    LET k == t[1] IN
    CASE k = "int"   -> <<"Int", v[2]>>
      [] k = "float" -> <<"Float", v[2]>>
      [] k = "byte"  -> <<"Byte", v[2]>>
      [] k = "char"  -> <<"Int", "codepoint " \o v[2]>>
      [] k = "str"   -> <<"String", v[2]>>
      [] k = "bool"  -> <<"Tag", IF v[2] = "true" THEN 1 ELSE 0>>
      [] k = "unit"  -> <<"Unit">>          \* no Gluon code can look inside a value of type (): Tag 0 (compiler) and Int 0 (Pushable) are one observation
      [] k = "rec"   -> <<"Data", 0, << Rep(<<"int">>, v[2]), Rep(<<"str">>, v[3]), Rep(Vec(<<"int">>), v[4]) >> >>
      [] k = "en"    -> IF v[2] = 0 THEN <<"Tag", 0>>
                        ELSE IF v[2] = 1 THEN <<"Data", 1, << Rep(<<"int">>, v[3][1]) >> >>
                        ELSE <<"Data", 2, << Rep(<<"str">>, v[3][1]), Rep(<<"float">>, v[3][2]) >> >>
      [] k = "rec2"  -> <<"Data", 0, << Rep(<<"str">>, v[3]), Rep(<<"int">>, v[2]) >> >>                  \* b, a
      [] k = "en2"   -> IF v[2] = 0 THEN <<"Tag", 0>>
                        ELSE IF v[2] = 1 THEN <<"Data", 1, << <<"Data", 0, << Rep(<<"int">>, v[3][2]), Rep(<<"int">>, v[3][1]) >> >> >> >>   \* height, width
                        ELSE <<"Data", 2, << <<"Data", 0, << Rep(<<"str">>, v[3][2]), Rep(<<"int">>, v[3][1]) >> >> >> >>               \* text, id
      [] k = "opt"   -> IF v[1] = "none" THEN <<"Tag", 0>> ELSE <<"Data", 1, << Rep(t[2], v[2]) >> >>
      [] k = "res"   -> IF v[1] = "ok" THEN <<"Data", 1, << Rep(t[2], v[2]) >> >> ELSE <<"Data", 0, << Rep(t[3], v[2]) >> >>
      [] k = "vec"   -> <<"Array", SeqMap(LAMBDA x : Rep(t[2], x), v[2])>>
      [] k = "tup"   -> <<"Data", 0, << Rep(t[2], v[2]), Rep(t[3], v[3]) >> >>
      [] k = "map"   -> <<"Opaque">>     \* a std.map tree built by calling std.map.insert; only its meaning is specified

(* what Getable reads: the inverse, defined by search over the values of the type *)
Get(t, g) == LET vs == Vals(t)  hits == { i \in 1..Len(vs) : Rep(t, vs[i]) = g } IN
             IF hits = {} THEN <<"stuck">> ELSE vs[CHOOSE i \in hits : \A j \in hits : i <= j]

(* the serde bridge *)
RECURSIVE SerRep(_, _)
SerRep(t, v) ==
    IF SerMode = "faithful" THEN Rep(t, v) ELSE
    LET k == t[1] IN
    CASE k \in {"int", "float", "str", "bool"} -> Rep(t, v)
      [] k = "unit"  -> <<"Tag", 0>>
      [] k = "byte"  -> <<"Int", "byte " \o v[2]>>                          \* serialize_u8 pushes an Int
      [] k = "char"  -> <<"String", "char " \o v[2]>>                       \* serialize_char goes through serialize_str
      [] k = "rec"   -> <<"Data", 0, << SerRep(<<"int">>, v[2]), SerRep(<<"str">>, v[3]), SerRep(Vec(<<"int">>), v[4]) >> >>
      [] k = "en"    -> IF v[2] = 0 THEN <<"Tag", 0>>
                        ELSE IF v[2] = 1 THEN <<"Data", 1, << SerRep(<<"int">>, v[3][1]) >> >>
                        ELSE <<"Data", 2, << SerRep(<<"str">>, v[3][1]), SerRep(<<"float">>, v[3][2]) >> >>
      [] k = "rec2"  -> <<"Data", 0, << SerRep(<<"int">>, v[2]), SerRep(<<"str">>, v[3]) >> >>           \* Rust order: a, b
      [] k = "en2"   -> IF v[2] = 0 THEN <<"Tag", 0>>
                        ELSE <<"Data", v[2], << <<"Data", 0, << SerRep(IF v[2] = 1 THEN <<"int">> ELSE <<"int">>, v[3][1]),
                                                               SerRep(IF v[2] = 1 THEN <<"int">> ELSE <<"str">>, v[3][2]) >> >> >> >>
      [] k = "opt"   -> IF v[1] = "none" THEN <<"Tag", 0>> ELSE SerRep(t[2], v[2])       \* Some x is pushed as x
      [] k = "res"   -> IF v[1] = "ok" THEN <<"Data", 0, << SerRep(t[2], v[2]) >> >>     \* serde's own variant indices
                        ELSE <<"Data", 1, << SerRep(t[3], v[2]) >> >>
      [] k = "vec"   -> IF t[2] = <<"byte">> THEN <<"Data", 0, SeqMap(LAMBDA x : SerRep(t[2], x), v[2])>>
                        ELSE <<"Data", 0, SeqMap(LAMBDA x : SerRep(t[2], x), v[2])>>      \* serialize_seq allocates a data value
      [] k = "tup"   -> <<"Data", 0, << SerRep(t[2], v[2]), SerRep(t[3], v[3]) >> >>
      [] k = "map"   -> <<"Data", 0, SeqMap(LAMBDA kv : SerRep(t[2], kv[2]), v[2])>>     \* a record, keys dropped

----------------------------------------------------------------------------
(* Gluon types and the signature check *)
RECURSIVE GType(_)
GType(t) ==
    LET k == t[1] IN
    CASE k = "int" -> "Int" [] k = "float" -> "Float" [] k = "byte" -> "Byte" [] k = "char" -> "Char"
      [] k = "str" -> "String" [] k = "bool" -> "Bool" [] k = "unit" -> "()"
      [] k = "rec" -> "mtypes.Rec" [] k = "en" -> "mtypes.En" [] k = "rec2" -> "mtypes.Rec2" [] k = "en2" -> "mtypes.En2"
      [] k = "opt" -> "(Option " \o GType(t[2]) \o ")"
      [] k = "res" -> "(Result " \o GType(t[3]) \o " " \o GType(t[2]) \o ")"
      [] k = "vec" -> "(Array " \o GType(t[2]) \o ")"
      [] k = "tup" -> "(" \o GType(t[2]) \o ", " \o GType(t[3]) \o ")"
      [] k = "map" -> "(Map String " \o GType(t[2]) \o ")"
      [] k = "fn"  -> "(" \o GType(t[2]) \o " -> " \o GType(t[3]) \o ")"

(* the globals of the driver module are monomorphic except `id : a -> a`; a request is granted iff the requested
   type is an instance of the global's type *)
SigTypes == { <<"int">>, <<"float">>, <<"str">>, <<"byte">>, <<"char">>, <<"bool">>, <<"unit">>, <<"rec">>, <<"en">>, <<"rec2">>, <<"en2">>,
              Opt(<<"int">>), Opt(<<"str">>), Vec(<<"int">>), Vec(<<"str">>), Vec(<<"byte">>), Vec(<<"float">>),
              Res(<<"int">>, <<"str">>), Res(<<"str">>, <<"str">>), Tup(<<"int">>, <<"str">>), Tup(<<"str">>, <<"byte">>),
              MapT(<<"int">>), MapT(<<"str">>), Opt(Opt(<<"int">>)), Vec(Vec(<<"int">>)),
              <<"fn", <<"int">>, <<"int">> >>, <<"fn", <<"str">>, <<"int">> >>, <<"fn", <<"int">>, <<"str">> >>,
              <<"fn", <<"str">>, <<"str">> >>, <<"fn", <<"int">>, <<"fn", <<"int">>, <<"int">> >> >> }
Globals == { g \in SigTypes : TRUE }      \* one global value per type, named by its type
IsFn(t) == t[1] = "fn"
Accepts(requested, global) ==
    IF global = <<"poly-id">> THEN IsFn(requested) /\ requested[2] = requested[3]
    ELSE requested = global

----------------------------------------------------------------------------
(* the laws, evaluated by TLC over every listed type and value; types containing a map are compared by meaning only *)
RECURSIVE HasMap(_)
HasMap(t) == t[1] = "map" \/ (Len(t) >= 2 /\ HasMap(t[2])) \/ (Len(t) >= 3 /\ HasMap(t[3]))
RoundTrip == \A t \in Types : \A i \in 1..Len(Vals(t)) :
                ~HasMap(t) => Get(t, Rep(t, Vals(t)[i])) = Vals(t)[i]
Injective(R(_, _)) == \A t \in Types : \A i, j \in 1..Len(Vals(t)) :
                (~HasMap(t) /\ R(t, Vals(t)[i]) = R(t, Vals(t)[j])) => i = j
SerFaithful == \A t \in Types : \A i \in 1..Len(Vals(t)) : ~HasMap(t) => SerRep(t, Vals(t)[i]) = Rep(t, Vals(t)[i])
(* values of distinct types may share a representation (None, (), False, Unit are all Tag 0): only the type tells
   them apart, which is why an unchecked host request would reinterpret *)
Confusable == { <<s, t>> \in Types \X Types : s # t /\ \E i \in 1..Len(Vals(s)), j \in 1..Len(Vals(t)) :
                    ~HasMap(s) /\ ~HasMap(t) /\ Rep(s, Vals(s)[i]) = Rep(t, Vals(t)[j]) }
SigSound == \A r \in SigTypes, g \in Globals : Accepts(r, g) <=> r = g

DistinctVals == \A t \in Types : \A i, j \in 1..Len(Vals(t)) : Vals(t)[i] = Vals(t)[j] => i = j

ASSUME DistinctVals
ASSUME RoundTrip
ASSUME Injective(Rep)
ASSUME SigSound
ASSUME Confusable # {}
ASSUME SerMode = "faithful" => SerFaithful /\ Injective(SerRep)
ASSUME SerMode = "coded" => ~SerFaithful /\ ~Injective(SerRep)      \* the bridge as written is lossy (Some(None) = None)

(* emission for the harness *)
Emit == /\ \A t \in Types : \A i \in 1..Len(Vals(t)) :
              PrintT(<<"CASE", ToJson([type |-> t, gtype |-> GType(t), index |-> i, value |-> Vals(t)[i],
                                        rep |-> Rep(t, Vals(t)[i]), ser |-> SerRep(t, Vals(t)[i])])>>)
        /\ \A r \in SigTypes : \A g \in Globals \cup { <<"poly-id">> } :
              PrintT(<<"SIG", ToJson([rust |-> r, global |-> g, gtype |-> IF g = <<"poly-id">> THEN "forall a . a -> a" ELSE GType(g),
                                       accept |-> Accepts(r, g)])>>)
ASSUME Emit

VARIABLE dummy
Init == dummy = 0
Next == UNCHANGED dummy
Spec == Init /\ [][Next]_dummy
=============================================================================

------------------------------ MODULE VMFrames ------------------------------
(* The frame stack of a gluon thread as a shape machine (vm/src/stack.rs add_new_frame / exit_scope,        *)
(* vm/src/thread.rs do_call, TailCall, Return, reset_stack).  Values are abstracted to the stack length.     *)
(*                                                                                                         *)
(* The same actions are used by the model checker (which explores calls, returns, tail calls and errors     *)
(* under a stack limit) and by Trace_VMFrames, which replays the frame events recorded from real runs.       *)
EXTENDS Integers, Sequences, FiniteSets, TLC

CONSTANTS MaxDepth,     \* bound on the number of frames (model checking only)
          Limit,        \* stack size limit (model checking only)
          MaxSS         \* candidate max_stack_size values of closures (model checking only)

VARIABLES frames,   \* Seq([kind, offset, maxss, excess])   kind \in {"top","closure","extern"}
          slen,     \* length of the value stack
          tc,       \* > 0: frame count when a tail call started (until the callee is entered)
          err       \* "none" | "overflow"
vars == <<frames, slen, tc, err>>

Frame(k, o, m, x, e) == [kind |-> k, offset |-> o, maxss |-> m, excess |-> x, entry |-> e]   \* entry: stack length when the frame was entered
Top == frames[Len(frames)]

Init == frames = <<Frame("top", 0, 0, FALSE, 0)>> /\ slen = 0 /\ tc = 0 /\ err = "none"

\* entering a function with `args` arguments on the stack: the new frame starts below its arguments
Enter(kind, args, maxss, excess, limit) ==
  /\ err = "none"
  /\ args <= slen
  /\ slen - args >= Top.offset                                   \* a frame never reaches below the current one
  /\ (limit < 0 \/ slen + maxss <= limit)                         \* otherwise StackOverflow is raised instead
  /\ (tc > 0 => Len(frames) + 1 <= tc)                            \* TailCallNoGrowth: the callee replaces the caller's frame
  /\ frames' = Append(frames, Frame(kind, slen - args, maxss, excess, slen))
  /\ tc' = 0
  /\ UNCHANGED <<slen, err>>

Overflow(maxss, limit) ==
  /\ err = "none" /\ limit >= 0 /\ slen + maxss > limit
  /\ err' = "overflow" /\ UNCHANGED <<frames, slen, tc>>

\* stack use inside the current frame: bounded by the compile-time max_stack_size of a closure
Work(newlen) ==
  /\ err = "none" /\ newlen >= Top.offset
  /\ (Top.kind = "closure" => newlen - Top.entry <= Top.maxss)    \* DepthBound: max_stack_size bounds the growth over the entry length
  /\ slen' = newlen /\ UNCHANGED <<frames, tc, err>>

Exit(newlen) ==
  /\ Len(frames) > 1
  /\ frames' = SubSeq(frames, 1, Len(frames) - 1)
  /\ slen' = newlen
  /\ UNCHANGED <<tc, err>>

TailCall ==
  /\ err = "none" /\ Top.kind = "closure"
  /\ tc' = Len(frames) /\ UNCHANGED <<frames, slen, err>>

\* error unwinding to frame level `level` (reset_stack)
Reset(level, newlen) ==
  /\ level >= 1 /\ level <= Len(frames)
  /\ frames' = SubSeq(frames, 1, level)
  /\ slen' = newlen /\ tc' = 0 /\ err' = "none"

Next ==
  \/ \E k \in {"closure", "extern"}, a \in 0..2, m \in MaxSS, x \in BOOLEAN :
        Len(frames) < MaxDepth /\ Enter(k, a, m, x, Limit)
  \/ \E m \in MaxSS : Overflow(m, Limit)
  \/ \E n \in 0..Limit : Work(n)
  \/ (err = "none" /\ Len(frames) > 1 /\ Exit(Top.offset))     \* the result replaces the function slot and the arguments
  \/ TailCall
  \/ (err = "overflow" /\ \E lv \in 1..Len(frames) : Reset(lv, frames[lv].offset))

Spec == Init /\ [][Next]_vars

OffsetsMonotone == \A i \in 1..(Len(frames) - 1) : frames[i].offset <= frames[i + 1].offset
WithinLimit == Limit < 0 \/ slen <= Limit
DepthBound == \A i \in 1..Len(frames) : (frames[i].kind = "closure" /\ i = Len(frames)) => slen - frames[i].entry <= frames[i].maxss
=============================================================================

------------------------------ MODULE Frontend ------------------------------
(* Acceptor for the front end (C09): for one input text the pipeline (lex, parse, macro expansion, rename,           *)
(* typecheck) produces either a checked program or a non-empty list of errors; every error carries a span inside     *)
(* the input (0 <= start <= end <= len, on character boundaries - the boundary test is done by the harness which       *)
(* knows the bytes) and the errors can be rendered.  Events of one run: begin(len), error(start, end)*, end(result).  *)
EXTENDS Integers, Sequences, TLC, Json, IOUtils

Rec == ndJsonDeserialize(IOEnv.TRACE)
VARIABLES phase, len, nerr, l
vars == <<phase, len, nerr, l>>
Init == phase = "idle" /\ len = 0 /\ nerr = 0 /\ l = 1
Ev == Rec[l]
Next ==
  /\ l <= Len(Rec) /\ l' = l + 1
  /\ CASE Ev.ev = "begin" -> phase = "idle" /\ phase' = "running" /\ len' = Ev.len /\ nerr' = 0
       [] Ev.ev = "error" -> /\ phase = "running" /\ 0 <= Ev.start /\ Ev.start <= Ev.end /\ Ev.end <= len /\ Ev.boundary
                             /\ nerr' = nerr + 1 /\ UNCHANGED <<phase, len>>
       [] Ev.ev = "end" -> /\ phase = "running"
                           /\ (Ev.result = "ok" => nerr = 0)
                           /\ (Ev.result = "err" => (nerr > 0 \/ Ev.unlocated) /\ Ev.rendered)
                           /\ phase' = "idle" /\ UNCHANGED <<len, nerr>>
Spec == Init /\ [][Next]_vars
Accepted == LET d == TLCGet("stats").diameter IN
            IF d - 1 = Len(Rec) THEN TRUE ELSE Print(<<"TRACE REJECTED at event", d, Rec[d]>>, FALSE)
=============================================================================

SPECIFICATION Spec
CONSTANTS
  MaxObj = 6
  MaxThr = 4
  MaxStack = 2
  MaxSteps = 14
  Acts = {"Alloc", "Unroot", "Spawn", "Collect", "Push", "Pop", "RootTop", "Cell", "Chan", "HostMove", "NewVM", "DropVM"}
  TwoVMs = TRUE
  Emit = TRUE
  Traps = {}
  Mutant = "none"
INVARIANTS EmitWalk Isolation NoDangling
CHECK_DEADLOCK FALSE

SPECIFICATION Spec
CONSTANTS
  MaxObj = 3
  MaxThr = 3
  MaxStack = 1
  MaxSteps = 7
  Acts = {"Alloc", "Unroot", "Spawn", "Collect", "Push", "Pop", "Cell", "HostMove"}
  TwoVMs = FALSE
  Emit = FALSE
  Traps = {}
  Mutant = "none"
VIEW View
INVARIANTS TypeOK Isolation NoDangling
PROPERTIES CollectExact CloneFaithful
CHECK_DEADLOCK FALSE

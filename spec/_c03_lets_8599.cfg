SPECIFICATION Spec
CONSTANTS
  MaxSize = 9
  MaxScope = 3
  Emit = TRUE
  StartScope = 0
  Prods = {"let", "lam", "app", "var", "recx", "px", "if", "tt", "int"}
INVARIANTS Emitted
CHECK_DEADLOCK FALSE

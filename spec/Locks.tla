------------------------------- MODULE Locks -------------------------------
(* Lock acquisition model of one VM shared by several OS threads (C14).                                         *)
(* Resources: ctx[t] - the mutex around a gluon thread's Context (stack + gc) (vm/src/thread.rs Thread.context); *)
(* children[t] - RwLock of the child-thread slab; db - the compiler database mutex (src/import.rs);              *)
(* interner, env - global VM state (vm/src/vm.rs).  Each public operation is the sequence of acquire / release   *)
(* steps the code performs:                                                                                     *)
(*   Run(t)            holds ctx[t] while interpreting (Thread::context / execute)                               *)
(*   Collect(t)        while holding ctx[t]: children[t], then ctx[c] of every descendant, root to leaf           *)
(*                     (Roots::mark_child_roots)                                                                 *)
(*   PushRooted(c, o)  pushing a value rooted in thread o onto thread c: holds ctx[c], then locks ctx[o] to      *)
(*                     read its generation (Pushable for RootedValue -> can_share_values_with)                   *)
(*   NewThread(t)      ctx[t] (new_child_gc), then children[t] (insert)                                          *)
(*   Import            db, then env / interner for the globals it defines                                       *)
(* TLC's deadlock check reports every cyclic wait of the design; LockOrder states the order the design relies on. *)
EXTENDS Integers, Sequences, FiniteSets, TLC

CONSTANTS Procs,        \* OS threads
          Scripts       \* [Procs -> sequence of steps], a step is <<"acq" | "rel", lock>>

VARIABLES pc, holder
vars == <<pc, holder>>

LocksUsed == UNION {{Scripts[p][i][2] : i \in DOMAIN Scripts[p]} : p \in Procs}
Init == pc = [p \in Procs |-> 1] /\ holder = [l \in LocksUsed |-> "free"]

Done(p) == pc[p] > Len(Scripts[p])
Step(p) ==
  /\ ~Done(p)
  /\ LET s == Scripts[p][pc[p]] IN
     IF s[1] = "acq"
       THEN /\ holder[s[2]] = "free"
            /\ holder' = [holder EXCEPT ![s[2]] = p]
       ELSE /\ holder[s[2]] = p
            /\ holder' = [holder EXCEPT ![s[2]] = "free"]
  /\ pc' = [pc EXCEPT ![p] = @ + 1]

Finished == (\A p \in Procs : Done(p)) /\ UNCHANGED vars
Next == (\E p \in Procs : Step(p)) \/ Finished
Spec == Init /\ [][Next]_vars

\* a process waits for a lock held by a process which waits for a lock held by ... the first: a cyclic wait
Waiting(p) == ~Done(p) /\ Scripts[p][pc[p]][1] = "acq" /\ holder[Scripts[p][pc[p]][2]] \notin {"free", p}
NoCyclicWait == ~\E p, q \in Procs : p # q /\ Waiting(p) /\ Waiting(q)
                                   /\ holder[Scripts[p][pc[p]][2]] = q /\ holder[Scripts[q][pc[q]][2]] = p
=============================================================================

---- MODULE MC_Locks ----
EXTENDS Locks
\* scenario "collect-vs-push": OS thread A runs on the parent P and collects (allocation), OS thread B pushes a
\* value rooted in P onto the child C
CollectVsPush == [
  A |-> << <<"acq", "ctxP">>, <<"acq", "childrenP">>, <<"acq", "ctxC">>, <<"rel", "ctxC">>, <<"rel", "childrenP">>, <<"rel", "ctxP">> >>,
  B |-> << <<"acq", "ctxC">>, <<"acq", "ctxP">>, <<"rel", "ctxP">>, <<"rel", "ctxC">> >> ]
\* scenario "siblings": two OS threads run programs on sibling child threads, each allocating (collection of the own
\* heap only), importing (db) and creating threads under the shared parent
Siblings == [
  A |-> << <<"acq", "ctxC1">>, <<"rel", "ctxC1">>, <<"acq", "db">>, <<"acq", "env">>, <<"rel", "env">>, <<"rel", "db">>, <<"acq", "ctxP">>, <<"rel", "ctxP">>, <<"acq", "childrenP">>, <<"rel", "childrenP">> >>,
  B |-> << <<"acq", "ctxC2">>, <<"rel", "ctxC2">>, <<"acq", "db">>, <<"acq", "env">>, <<"rel", "env">>, <<"rel", "db">>, <<"acq", "ctxP">>, <<"rel", "ctxP">>, <<"acq", "childrenP">>, <<"rel", "childrenP">> >> ]
====

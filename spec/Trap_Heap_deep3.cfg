SPECIFICATION Spec
CONSTANTS
  MaxObj = 2
  MaxThr = 3
  MaxStack = 1
  MaxSteps = 9
  Acts = {"Alloc", "Unroot", "Spawn", "HostMove"}
  TwoVMs = FALSE
  Emit = TRUE
  Traps = {"deep3"}
  Mutant = "none"
VIEW View
INVARIANTS EmitTraps
CHECK_DEADLOCK FALSE

---- MODULE Imports_TTrace_1790208791 ----
EXTENDS Sequences, TLCExt, Toolbox, Naturals, TLC, Imports

_expression ==
    LET Imports_TEExpression == INSTANCE Imports_TEExpression
    IN Imports_TEExpression!expression
----

_trace ==
    LET Imports_TETrace == INSTANCE Imports_TETrace
    IN Imports_TETrace!trace
----

_inv ==
    ~(
        TLCGet("level") = Len(_TETrace)
        /\
        broken = ({1, 2})
        /\
        arrived = (<<2, 1, 3>>)
        /\
        reported = (<<2, 1>>)
        /\
        fin = (TRUE)
        /\
        done = ({1, 2, 3})
    )
----

_init ==
    /\ done = _TETrace[1].done
    /\ broken = _TETrace[1].broken
    /\ reported = _TETrace[1].reported
    /\ fin = _TETrace[1].fin
    /\ arrived = _TETrace[1].arrived
----

_next ==
    /\ \E i,j \in DOMAIN _TETrace:
        /\ \/ /\ j = i + 1
              /\ i = TLCGet("level")
        /\ done  = _TETrace[i].done
        /\ done' = _TETrace[j].done
        /\ broken  = _TETrace[i].broken
        /\ broken' = _TETrace[j].broken
        /\ reported  = _TETrace[i].reported
        /\ reported' = _TETrace[j].reported
        /\ fin  = _TETrace[i].fin
        /\ fin' = _TETrace[j].fin
        /\ arrived  = _TETrace[i].arrived
        /\ arrived' = _TETrace[j].arrived

\* Uncomment the ASSUME below to write the states of the error trace
\* to the given file in Json format. Note that you can pass any tuple
\* to `JsonSerialize`. For example, a sub-sequence of _TETrace.
    \* ASSUME
    \*     LET J == INSTANCE Json
    \*         IN J!JsonSerialize("Imports_TTrace_1790208791.json", _TETrace)

=============================================================================

 Note that you can extract this module `Imports_TEExpression`
  to a dedicated file to reuse `expression` (the module in the 
  dedicated `Imports_TEExpression.tla` file takes precedence 
  over the module `Imports_TEExpression` below).

---- MODULE Imports_TEExpression ----
EXTENDS Sequences, TLCExt, Toolbox, Naturals, TLC, Imports

expression == 
    [
        \* To hide variables of the `Imports` spec from the error trace,
        \* remove the variables below.  The trace will be written in the order
        \* of the fields of this record.
        done |-> done
        ,broken |-> broken
        ,reported |-> reported
        ,fin |-> fin
        ,arrived |-> arrived
        
        \* Put additional constant-, state-, and action-level expressions here:
        \* ,_stateNumber |-> _TEPosition
        \* ,_doneUnchanged |-> done = done'
        
        \* Format the `done` variable as Json value.
        \* ,_doneJson |->
        \*     LET J == INSTANCE Json
        \*     IN J!ToJson(done)
        
        \* Lastly, you may build expressions over arbitrary sets of states by
        \* leveraging the _TETrace operator.  For example, this is how to
        \* count the number of times a spec variable changed up to the current
        \* state in the trace.
        \* ,_doneModCount |->
        \*     LET F[s \in DOMAIN _TETrace] ==
        \*         IF s = 1 THEN 0
        \*         ELSE IF _TETrace[s].done # _TETrace[s-1].done
        \*             THEN 1 + F[s-1] ELSE F[s-1]
        \*     IN F[_TEPosition - 1]
    ]

=============================================================================



Parsing and semantic processing can take forever if the trace below is long.
 In this case, it is advised to uncomment the module below to deserialize the
 trace from a generated binary file.

\*
\*---- MODULE Imports_TETrace ----
\*EXTENDS IOUtils, TLC, Imports
\*
\*trace == IODeserialize("Imports_TTrace_1790208791.bin", TRUE)
\*
\*=============================================================================
\*

---- MODULE Imports_TETrace ----
EXTENDS TLC, Imports

trace == 
    <<
    ([broken |-> {1, 2},arrived |-> <<>>,reported |-> <<>>,fin |-> FALSE,done |-> {}]),
    ([broken |-> {1, 2},arrived |-> <<2>>,reported |-> <<>>,fin |-> FALSE,done |-> {2}]),
    ([broken |-> {1, 2},arrived |-> <<2, 1>>,reported |-> <<>>,fin |-> FALSE,done |-> {1, 2}]),
    ([broken |-> {1, 2},arrived |-> <<2, 1, 3>>,reported |-> <<>>,fin |-> FALSE,done |-> {1, 2, 3}]),
    ([broken |-> {1, 2},arrived |-> <<2, 1, 3>>,reported |-> <<2, 1>>,fin |-> TRUE,done |-> {1, 2, 3}])
    >>
----


=============================================================================

---- CONFIG Imports_TTrace_1790208791 ----
CONSTANTS
    N = 3
    Mode = "arrival"
    Emit = FALSE

INVARIANT
    _inv

CHECK_DEADLOCK
    \* CHECK_DEADLOCK off because of PROPERTY or INVARIANT above.
    FALSE

INIT
    _init

NEXT
    _next

CONSTANT
    _TETrace <- _trace

ALIAS
    _expression
=============================================================================
\* Generated on Thu Sep 24 00:13:13 UTC 2026
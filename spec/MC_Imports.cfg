SPECIFICATION Spec
CONSTANTS
  N = 3
  Mode = "sorted"
  Emit = TRUE
INVARIANTS Deterministic EmitSchedule
CHECK_DEADLOCK FALSE

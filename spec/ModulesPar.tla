----------------------------- MODULE ModulesPar -----------------------------
(* Several OS threads request modules of one VM at the same moment (src/import.rs, src/query.rs: the compiler     *)
(* database is forked per request, module globals are shared).  Contract (C14): every module body is evaluated     *)
(* at most once however many requesters race for it, every requester gets the module's value, nobody waits for     *)
(* ever.  A module is claimed by the first requester that needs it; the others wait for its value.                 *)
EXTENDS Integers, Sequences, FiniteSets, TLC

CONSTANTS Procs, Mods, Deps,      \* Deps: [Mods -> SUBSET Mods] (acyclic)
          Wants                    \* [Procs -> Mods]

VARIABLES state,     \* [Mods -> {"idle", "running", "done"}]
          evals,     \* [Mods -> Nat] how often the body ran
          got        \* [Procs -> BOOLEAN]
vars == <<state, evals, got>>

RECURSIVE Closure(_, _)
Closure(todo, seen) == IF todo = {} THEN seen
                       ELSE LET m == CHOOSE x \in todo : TRUE IN Closure((todo \ {m}) \cup (Deps[m] \ seen), seen \cup {m})
Need(p) == Closure({Wants[p]}, {})

Init == state = [m \in Mods |-> "idle"] /\ evals = [m \in Mods |-> 0] /\ got = [p \in Procs |-> FALSE]

\* a requester claims an idle module it needs whose dependencies are done, and runs its body
Start(p, m) == /\ ~got[p] /\ m \in Need(p) /\ state[m] = "idle" /\ \A d \in Deps[m] : state[d] = "done"
               /\ state' = [state EXCEPT ![m] = "running"] /\ evals' = [evals EXCEPT ![m] = @ + 1] /\ UNCHANGED got
Finish(m) == state[m] = "running" /\ state' = [state EXCEPT ![m] = "done"] /\ UNCHANGED <<evals, got>>
Receive(p) == ~got[p] /\ state[Wants[p]] = "done" /\ got' = [got EXCEPT ![p] = TRUE] /\ UNCHANGED <<state, evals>>
AllDone == (\A p \in Procs : got[p]) /\ UNCHANGED vars

Next == (\E p \in Procs, m \in Mods : Start(p, m)) \/ (\E m \in Mods : Finish(m)) \/ (\E p \in Procs : Receive(p)) \/ AllDone
Spec == Init /\ [][Next]_vars /\ WF_vars(Next)

AtMostOnce == \A m \in Mods : evals[m] <= 1
EveryoneServed == <>(\A p \in Procs : got[p])
=============================================================================

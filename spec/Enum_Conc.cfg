SPECIFICATION Spec
CONSTANTS
  MaxChan = 1
  MaxCell = 1
  MaxLazy = 2
  MaxThread = 2
  MaxSteps = 4
  Ideal = TRUE
  ResumeFailed = TRUE
  Emit = TRUE
INVARIANTS EmitWalk
CHECK_DEADLOCK FALSE

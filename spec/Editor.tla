------------------------------- MODULE Editor -------------------------------
(* Acceptor for editor queries (C20).  For one program and one cursor position the queries (type at position,       *)
(* completion, signature help, metadata, symbols) return; at an identifier the reported type is the type the checker  *)
(* gave it (known to the generator: Lang.tla's typing); every suggested local name is in scope at the position        *)
(* (Lang.tla's Scopes: the variables v1..vk of the k enclosing binders).                                             *)
EXTENDS Integers, Sequences, TLC, Json, IOUtils

Rec == ndJsonDeserialize(IOEnv.TRACE)
VARIABLE l
Ev == Rec[l]
Init == l = 1
Ok(e) == /\ e.returned                      \* no query panicked
         /\ e.type_ok                       \* type at identifier = checker's type
         /\ e.scope_ok                      \* suggestions are in scope
Next == l <= Len(Rec) /\ Ok(Ev) /\ l' = l + 1
Spec == Init /\ [][Next]_l
Accepted == LET d == TLCGet("stats").diameter IN
            IF d - 1 = Len(Rec) THEN TRUE ELSE Print(<<"TRACE REJECTED at event", d>>, FALSE)
=============================================================================

SPECIFICATION Spec
CONSTANTS
  NMod = 2
  MaxSteps = 4
  Emit = FALSE
  SkipDep = 1
INVARIANTS NeverStale CycleReported
CHECK_DEADLOCK FALSE

SPECIFICATION Spec
CONSTANTS
  N = 3
  Mode = "arrival"
  Emit = FALSE
INVARIANTS Deterministic
CHECK_DEADLOCK FALSE

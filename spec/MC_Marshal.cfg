CONSTANT SerMode = "coded"
SPECIFICATION Spec
CHECK_DEADLOCK FALSE

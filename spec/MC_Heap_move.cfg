SPECIFICATION Spec
CONSTANTS
  MaxObj = 3
  MaxThr = 3
  MaxStack = 1
  MaxSteps = 9
  Acts = {"Alloc", "Unroot", "Spawn", "Collect", "HostMove", "NewVM", "DropVM"}
  TwoVMs = TRUE
  Emit = FALSE
  Traps = {}
  Mutant = "none"
VIEW View
INVARIANTS TypeOK Isolation NoDangling
PROPERTIES CollectExact CloneFaithful
CHECK_DEADLOCK FALSE

------------------------------- MODULE Format -------------------------------
(* Acceptor for the formatter (C10).  For one input the harness records: the normalised trees of the input and of the  *)
(* output (as hashes), the comment sequences, the literal sequences, and the result of formatting the output again.   *)
(* A `format` event is accepted iff the output parses to the same tree, keeps the comments in order, keeps the        *)
(* literals byte for byte and is a fixed point of the formatter.                                                      *)
EXTENDS Integers, Sequences, TLC, Json, IOUtils

Rec == ndJsonDeserialize(IOEnv.TRACE)
VARIABLE l
Ev == Rec[l]
Init == l = 1
Preserved(e) == /\ e.tree_in = e.tree_out          \* same abstract syntax tree (positions ignored)
                /\ e.comments_in = e.comments_out  \* same comments, same order
                /\ e.literals_in = e.literals_out  \* literals byte for byte
                /\ e.again = e.out                 \* idempotent
Next == l <= Len(Rec) /\ Preserved(Ev) /\ l' = l + 1
Spec == Init /\ [][Next]_l
Accepted == LET d == TLCGet("stats").diameter IN
            IF d - 1 = Len(Rec) THEN TRUE ELSE Print(<<"TRACE REJECTED at event", d>>, FALSE)
=============================================================================

------------------------------ MODULE Modules ------------------------------
(* The incremental module database of one VM (src/query.rs, src/import.rs, src/lib.rs load_script):         *)
(* sources are (re)registered with add_module, `import! m` evaluates a module and everything it imports.    *)
(*                                                                                                         *)
(* Contract (C15):  NeverStale - every evaluation answers what a fresh VM given the latest sources answers  *)
(* (value, or the error: cycle, missing module, type error located in the first ill-typed module);          *)
(* EvalOnce - as long as no source changes, a module body runs at most once however many importers it has.  *)
(* The memo table is modelled as the code keeps it (per module: the value and the source versions of the     *)
(* transitive dependencies it was computed from) so that TLC checks the design: MemoAnswer = Fresh.          *)
EXTENDS Integers, Sequences, FiniteSets, TLC, Json

CONSTANTS NMod, MaxSteps, Emit,
          SkipDep      \* mutant: the memo of a module is not re-verified against its n-th dependency (0 = faithful)

Mod == 1..NMod
Bodies == {"int1", "int2", "use", "str", "tyerr"}
NoSrc == [imports |-> {}, body |-> "none"]
Descr == [imports : SUBSET Mod, body : Bodies]
\* edits offered to the generator: imports of lower-numbered modules (acyclic) or one forward import (a potential cycle)
Offered(m) == {d \in Descr : d.imports \subseteq 1..(m - 1) \/ d.imports = {(m % NMod) + 1} \/ d.imports = {m}}

VARIABLES src,      \* [Mod -> Descr \cup {NoSrc}]
          ver,      \* [Mod -> Nat]   bumped by every content-changing edit of the module
          memo,     \* [Mod -> [has, val, deps]]   deps: [Mod -> version seen] for the transitive closure
          evald,    \* modules whose body ran since the last content-changing edit
          hist
vars == <<src, ver, memo, evald, hist>>

Init == /\ src = [m \in Mod |-> NoSrc] /\ ver = [m \in Mod |-> 0]
        /\ memo = [m \in Mod |-> [has |-> FALSE, val |-> <<"none">>, deps |-> [d \in Mod |-> 0]]]
        /\ evald = {} /\ hist = <<>>

\* ---- the reference: what a fresh VM given `src` answers for `import! m`
RECURSIVE Closure(_, _)
Closure(todo, seen) ==
  IF todo = {} THEN seen
  ELSE LET m == CHOOSE x \in todo : TRUE IN
       IF m \in seen THEN Closure(todo \ {m}, seen)
       ELSE Closure((todo \ {m}) \cup src[m].imports, seen \cup {m})
Deps(m) == Closure({m}, {})

RECURSIVE OnCycle(_, _, _)
\* is there a path from `from` back to `target` (so that target is on an import cycle)
OnCycle(target, todo, seen) ==
  IF todo = {} THEN FALSE
  ELSE LET m == CHOOSE x \in todo : TRUE IN
       IF m = target THEN TRUE
       ELSE IF m \in seen THEN OnCycle(target, todo \ {m}, seen)
       ELSE OnCycle(target, (todo \ {m}) \cup src[m].imports, seen \cup {m})
Cyclic(m) == \E c \in Deps(m) : src[c].body # "none" /\ OnCycle(c, src[c].imports, {})

\* value of a module given the values of its imports: <<"int", k>> | <<"str">> | <<"err", class, module>>
RECURSIVE Fresh(_, _)
Fresh(m, fuel) ==
  IF fuel = 0 THEN <<"err", "cycle", m>>
  ELSE IF src[m].body = "none" THEN <<"err", "missing", m>>
  ELSE LET vals == [d \in src[m].imports |-> Fresh(d, fuel - 1)]
           bad  == {d \in src[m].imports : vals[d][1] = "err"}
       IN IF bad # {} THEN vals[CHOOSE d \in bad : \A e \in bad : d <= e]      \* first failing import (imports are written in order)
          ELSE CASE src[m].body = "int1" -> <<"int", 1>>
                 [] src[m].body = "int2" -> <<"int", 2>>
                 [] src[m].body = "str"  -> <<"str">>
                 [] src[m].body = "tyerr" -> <<"err", "type", m>>
                 [] src[m].body = "use" ->
                      IF \E d \in src[m].imports : vals[d][1] # "int" THEN <<"err", "type", m>>     \* a dependency changed its type
                      ELSE <<"int", 10 + LET S[ds \in SUBSET src[m].imports] == IF ds = {} THEN 0 ELSE LET d == CHOOSE x \in ds : TRUE IN vals[d][2] + S[ds \ {d}] IN S[src[m].imports]>>
Answer(m) == IF Cyclic(m) THEN <<"err", "cycle", 0>> ELSE Fresh(m, NMod + 1)

\* ---- the memo discipline: a memo is valid iff the versions of all modules it was computed from are unchanged
Nth(S, n) == IF n = 0 \/ n > Cardinality(S) THEN 0 ELSE CHOOSE x \in S : Cardinality({y \in S : y < x}) = n - 1
MemoValid(m) == memo[m].has /\ \A d \in Deps(m) \ {Nth(Deps(m) \ {m}, SkipDep)} : memo[m].deps[d] = ver[d]
MemoAnswer(m) == IF MemoValid(m) THEN memo[m].val ELSE Answer(m)

Log(r) == hist' = Append(hist, r)

\* add_module: a changed source bumps the version; registering identical text changes nothing
Edit(m, d) ==
  /\ Len(hist) < MaxSteps
  /\ ~(Len(hist) >= 2 /\ hist[Len(hist)].op = "edit" /\ hist[Len(hist) - 1].op = "edit")     \* at most two edits in a row
  /\ src' = [src EXCEPT ![m] = d]
  /\ IF src[m] = d
       THEN UNCHANGED <<ver, evald>>
       ELSE ver' = [ver EXCEPT ![m] = @ + 1] /\ evald' = {}
  /\ UNCHANGED memo
  /\ Log([op |-> "edit", m |-> m, imports |-> d.imports, body |-> d.body, ver |-> ver'[m], changed |-> (src[m] # d)])

\* import! m: answers from the memo when valid, otherwise recomputes the closure; bodies run for modules that have a
\* value and have not run since the last change
Eval(m) ==
  /\ Len(hist) < MaxSteps
  /\ LET ans == MemoAnswer(m)
         ran == IF MemoValid(m) THEN {} ELSE {d \in Deps(m) : ~MemoValid(d) /\ Answer(d)[1] # "err"} \ evald
     IN /\ memo' = [x \in Mod |-> IF x \in Deps(m) /\ ~MemoValid(x) /\ ~Cyclic(x)
                                   THEN [has |-> Answer(x)[1] # "err", val |-> Answer(x), deps |-> [d \in Mod |-> ver[d]]]
                                   ELSE memo[x]]
        /\ evald' = evald \cup ran
        /\ Log([op |-> "eval", m |-> m, ans |-> ans, mayrun |-> Deps(m) \ evald, evald |-> evald])
  /\ UNCHANGED <<src, ver>>

\* re-registering the identical text (load_script / typecheck_str of an unchanged file) is an edit that changes nothing
Reload(m) == src[m] # NoSrc /\ Edit(m, src[m])

Next == \/ \E m \in Mod : \E d \in Offered(m) : Edit(m, d)
        \/ \E m \in Mod : Reload(m)
        \/ \E m \in Mod : Eval(m)
Spec == Init /\ [][Next]_vars

\* the design never answers from a stale memo
NeverStale == \A m \in Mod : MemoAnswer(m) = Answer(m)
\* a cyclic import chain is an error, never a hang (the reference is total)
CycleReported == \A m \in Mod : Cyclic(m) => Answer(m)[1] = "err"
EmitHist == (Emit /\ Len(hist) = MaxSteps) => PrintT(<<"HIST", ToJson(hist)>>)
=============================================================================

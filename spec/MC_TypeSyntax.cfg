SPECIFICATION Spec
CONSTANTS
  MaxSize = 5
  Core = TRUE
  Emit = FALSE
INVARIANTS RoundTrip
CHECK_DEADLOCK FALSE

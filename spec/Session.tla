------------------------------ MODULE Session ------------------------------
(* One or more long-lived VMs (in one or several processes) evaluating programs, as seen by the host.        *)
(*                                                                                                          *)
(* Determinism monitor (C16): what a program evaluates to - value rendering, type text, diagnostics text -  *)
(* is a function of (source, settings) alone: `out[p]` is bound at the first observation of program p and   *)
(* every later observation, in whatever VM, process or order and after whatever other work, must be equal.  *)
(*                                                                                                          *)
(* Usability monitor (C06): after every top-level evaluation - successful or failed - the VM is back at its  *)
(* base frame and stack (frames = 1, slen = base), and a program evaluated after failures answers exactly    *)
(* what a fresh VM answers (which is the determinism requirement again, with failing programs in between).  *)
EXTENDS Integers, Sequences, FiniteSets, TLC, Json

CONSTANTS NProg,      \* programs 1..NProg (sources with settings)
          NVM,        \* VMs 1..NVM (a new process / VM per id)
          MaxLen,     \* length of a history
          Emit

Prog == 1..NProg
VMs  == 1..NVM

VARIABLES out,      \* [Prog -> Int]   0 = not observed yet, otherwise the observation (hash)
          frames,   \* [VMs -> Int]    frames on the VM's stack between evaluations
          slen,     \* [VMs -> Int]    value stack length between evaluations
          hist      \* the history: sequence of <<vm, prog>>

vars == <<out, frames, slen, hist>>

Init == /\ out = [p \in Prog |-> 0]
        /\ frames = [v \in VMs |-> 1]
        /\ slen = [v \in VMs |-> 0]
        /\ hist = <<>>

\* Evaluation of program p on VM v observing h, leaving f frames and s stack values behind
Run(v, p, h, f, s) ==
  /\ h # 0
  /\ (out[p] = 0 \/ out[p] = h)                 \* determinism: equal to the first observation
  /\ f = 1 /\ s = 0                              \* the VM is back at its base whatever the outcome was
  /\ out' = [out EXCEPT ![p] = h]
  /\ frames' = [frames EXCEPT ![v] = f]
  /\ slen' = [slen EXCEPT ![v] = s]
  /\ hist' = Append(hist, <<v, p>>)

\* generator of histories (the observation is abstracted to "the" value of the program)
Step == /\ Len(hist) < MaxLen
        /\ \E v \in VMs, p \in Prog : Run(v, p, p, 1, 0)

Spec == Init /\ [][Step]_vars

Deterministic == \A p \in Prog : out[p] \in {0, p}
AtBase == \A v \in VMs : frames[v] = 1 /\ slen[v] = 0
EmitHistory == (Emit /\ Len(hist) = MaxLen) => PrintT(<<"HIST", ToJson(hist)>>)
=============================================================================

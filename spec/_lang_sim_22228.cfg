SPECIFICATION Spec
CONSTANTS
  MaxSize = 24
  MaxScope = 4
  RootTys = {"I"}
  Emit = TRUE
  Mutations = 0
  Prods = {"add", "and", "app1", "app2", "arr0", "arr2", "big", "cons", "div", "eff", "effm", "eq", "err", "false", "idx", "if", "lam1", "lam11", "lam2", "let", "letu", "lit", "lt", "mkp", "mkr", "mkrs", "mlist", "mlistd", "mlit", "mopt", "mopt3", "mpart", "mrec", "mtup", "mul", "nil", "none", "or", "papp", "prx", "prxa", "prxn", "pry", "prya", "pryn", "recf", "some", "sub", "true", "upd", "var"}
INVARIANTS Sound EmitMutant
CHECK_DEADLOCK FALSE

SPECIFICATION Spec
CONSTANTS
  MaxObj = 3
  MaxThr = 3
  MaxStack = 2
  MaxSteps = 9
  Acts = {"Alloc", "Unroot", "Spawn", "Collect", "Push", "Pop", "RootTop"}
  TwoVMs = FALSE
  Emit = FALSE
  Traps = {}
  Mutant = "none"
VIEW View
INVARIANTS TypeOK Isolation NoDangling
PROPERTIES CollectExact CloneFaithful
CHECK_DEADLOCK FALSE

SPECIFICATION Spec
CONSTANTS
  MaxSize = 7
  MaxScope = 3
  RootTys = {"I"}
  Emit = TRUE
  Mutations = 0
  Prods = {"add", "and", "app1", "big", "div", "eff", "effm", "err", "if", "lam1", "lam2", "let", "letu", "lit", "mkr", "mul", "or", "papp", "prx", "true", "var"}
INVARIANTS Sound EmitMutant
CHECK_DEADLOCK FALSE

SPECIFICATION Spec
CONSTANTS
  MaxChan = 2
  MaxCell = 1
  MaxLazy = 2
  MaxThread = 2
  MaxSteps = 6
  Ideal = FALSE
  ResumeFailed = TRUE
  Emit = FALSE
VIEW View
INVARIANTS NoHang
CHECK_DEADLOCK FALSE

SPECIFICATION Spec
CONSTANTS
  MaxDepth = 2
  Emit = TRUE
INVARIANTS AllTail EmitCtx
CHECK_DEADLOCK FALSE

------------------------------ MODULE MemLimit ------------------------------
(* Allocation accounting of one heap (vm/src/gc.rs: alloc_owned, alloc_ignore_limit_, free, collect).     *)
(*                                                                                                        *)
(* Contract (C07): memory accounted to the thread never exceeds the configured limit; an allocation that   *)
(* does not fit fails with OutOfMemory.  `Alloc` is the contract; `AllocAsCoded` transcribes the guard of  *)
(* alloc_owned, which compares allocated + size (without the block header) with the limit.                 *)
EXTENDS Integers, TLC

CONSTANTS MaxLimit, MaxSize, Header, AsCoded

VARIABLES allocated, limit, last    \* last: "ok" | "oom" | "free" | "init"
vars == <<allocated, limit, last>>

Init == allocated = 0 /\ limit \in 0..MaxLimit /\ last = "init"

\* the contract: the whole block (header + value) must fit
Alloc(size) ==
  IF allocated + Header + size <= limit
    THEN allocated' = allocated + Header + size /\ last' = "ok" /\ UNCHANGED limit
    ELSE last' = "oom" /\ UNCHANGED <<allocated, limit>>

\* the code: `needed = allocated + size; if needed >= limit { OutOfMemory }` then allocated += header + size
AllocAsCoded(size) ==
  IF allocated + size >= limit
    THEN last' = "oom" /\ UNCHANGED <<allocated, limit>>
    ELSE allocated' = allocated + Header + size /\ last' = "ok" /\ UNCHANGED limit

Free(total) == total > 0 /\ total <= allocated /\ allocated' = allocated - total /\ last' = "free" /\ UNCHANGED limit

Next == \/ \E s \in 0..MaxSize : IF AsCoded THEN AllocAsCoded(s) ELSE Alloc(s)
        \/ \E t \in 1..(MaxSize + Header) : Free(t)

Spec == Init /\ [][Next]_vars

WithinLimit == allocated <= limit
\* how far the code can overshoot (used to tell the known deviation from anything larger)
OvershootBound == allocated < limit + Header
=============================================================================

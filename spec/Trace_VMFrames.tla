--------------------------- MODULE Trace_VMFrames ---------------------------
(* Replays the frame events recorded from a real run (hooks in stack.rs / thread.rs) through VMFrames:        *)
(* every event must be the corresponding action of the specification, which enforces OffsetsMonotone, the      *)
(* stack limit at every entry, DepthBound (through the recorded peak stack length of the frame that was        *)
(* running) and TailCallNoGrowth.                                                                             *)
EXTENDS VMFrames, Json, IOUtils

Rec == ndJsonDeserialize(IOEnv.TRACE)
VARIABLE l
Ev == Rec[l]

TInit == /\ frames = [i \in 1..Rec[1].frames |-> Frame("top", 0, 0, FALSE, 0)]
         /\ slen = Rec[1].slen /\ tc = 0 /\ err = "none" /\ l = 2

\* the frame which was running since the previous event used at most `peak` stack slots
PeakOk(peak) == Top.kind = "closure" => peak - Top.entry <= Top.maxss

TNext ==
  /\ l <= Len(Rec)
  /\ l' = l + 1
  /\ CASE Ev.ev = "enter" ->
            \* during a tail call the arguments of the callee sit above the popped frame until the callee is entered
            /\ ((err = "none" /\ tc = 0) => PeakOk(Ev.peak))
            /\ slen' = Ev.slen
            /\ Ev.frames = Len(frames) + 1
            /\ Ev.offset = Ev.slen - Ev.args
            /\ Ev.offset >= Top.offset
            /\ (Ev.limit < 0 \/ Ev.slen + Ev.maxss <= Ev.limit)
            /\ (tc > 0 => Ev.frames <= tc)
            /\ frames' = Append(frames, Frame(Ev.kind, Ev.offset, Ev.maxss, Ev.excess, Ev.slen))
            /\ tc' = 0 /\ UNCHANGED err
       [] Ev.ev = "exit" ->
            /\ (err = "none" => PeakOk(Ev.peak))        \* while an error unwinds, frames are popped but their values are not
            /\ Ev.frames = Len(frames) - 1
            /\ frames' = SubSeq(frames, 1, Len(frames) - 1)
            /\ slen' = Ev.slen /\ UNCHANGED <<tc, err>>
       [] Ev.ev = "tailcall" ->
            /\ Ev.frames = Len(frames) /\ Top.kind = "closure"
            /\ tc' = Len(frames) /\ slen' = Ev.slen /\ UNCHANGED <<frames, err>>
       [] Ev.ev = "overflow" ->
            /\ Ev.limit >= 0 /\ Ev.slen + Ev.maxss > Ev.limit
            /\ err' = "overflow" /\ UNCHANGED <<frames, slen, tc>>
       [] Ev.ev = "reset" ->
            /\ Ev.frames <= Len(frames) /\ Ev.frames >= 1
            /\ frames' = SubSeq(frames, 1, Ev.frames)
            /\ slen' = Ev.slen /\ tc' = 0 /\ err' = "none"
       [] Ev.ev = "base" ->
            /\ frames' = [i \in 1..Ev.frames |-> Frame("top", 0, 0, FALSE, 0)]
            /\ slen' = Ev.slen /\ tc' = 0 /\ err' = "none"
       [] OTHER -> UNCHANGED vars

TSpec == TInit /\ [][TNext]_<<vars, l>>
Accepted == LET d == TLCGet("stats").diameter IN
            IF d = Len(Rec) THEN TRUE ELSE Print(<<"TRACE REJECTED at event", d + 1, Rec[d + 1]>>, FALSE)
=============================================================================

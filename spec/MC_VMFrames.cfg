SPECIFICATION Spec
CONSTANTS
  MaxDepth = 4
  Limit = 6
  MaxSS = {1, 3}
INVARIANTS OffsetsMonotone WithinLimit DepthBound
CHECK_DEADLOCK FALSE

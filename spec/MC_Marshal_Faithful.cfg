CONSTANT SerMode = "faithful"
SPECIFICATION Spec
CHECK_DEADLOCK FALSE

SPECIFICATION Spec
CONSTANTS
  NProg = 3
  NVM = 2
  MaxLen = 6
  Emit = FALSE
INVARIANTS Deterministic AtBase
CHECK_DEADLOCK FALSE

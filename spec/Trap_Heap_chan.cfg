SPECIFICATION Spec
CONSTANTS
  MaxObj = 3
  MaxThr = 3
  MaxStack = 1
  MaxSteps = 6
  Acts = {"Alloc", "Unroot", "Spawn", "HostMove", "Chan"}
  TwoVMs = FALSE
  Emit = TRUE
  Traps = {"chan"}
  Mutant = "none"
VIEW View
INVARIANTS EmitTraps
CHECK_DEADLOCK FALSE

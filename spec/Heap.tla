------------------------------- MODULE Heap -------------------------------
(* Thread tree, per-thread heaps, mark/sweep collection and deep clone of gluon.           *)
(*                                                                                        *)
(* Mirrors vm/src/gc.rs (Gc::mark / sweep, Generation), vm/src/thread.rs (Roots,           *)
(* mark_child_roots, RootedValue, new_thread, deep_clone_value, can_share_values_with),    *)
(* vm/src/value.rs (Cloner), vm/src/reference.rs (Reference: ref / load / <-),             *)
(* vm/src/channel.rs (Sender / Receiver: send / recv), vm/src/lazy.rs (stored result) and  *)
(* vm/src/api/mod.rs (Pushable for RootedValue, re_root).                                  *)
(*                                                                                        *)
(* Heaps: thread t owns heap t; VM v owns the global heap MaxThr + v (generation 0, never  *)
(* collected).  Values: 0 = an immediate, o > 0 = pointer to object o.  Object ids are     *)
(* allocated in increasing order and never reused.                                        *)
EXTENDS Integers, Sequences, FiniteSets, TLC, Json

CONSTANTS MaxObj, MaxThr, MaxStack, MaxSteps,
          Acts,      \* enabled action names (route-focused configurations)
          TwoVMs,    \* a second, unrelated VM may be created
          Emit,      \* print walks for the replay
          Traps,     \* names of the scenario traps whose walks are emitted
          Mutant     \* "none", or the name of a deliberately wrong variant (the invariants must reject it)

Thr == 1..MaxThr
Obj == 1..MaxObj
GHeap(v) == MaxThr + v

VARIABLES
  nthr,     \* threads created so far (ids 1..nthr); thread 1 is the root thread of VM 1
  parent,   \* [Thr -> 0..MaxThr]   0 = root thread of its VM
  vmof,     \* [Thr -> 1..2]
  gone,     \* set of VMs that were dropped
  nobj,     \* objects allocated so far
  obj,      \* [Obj -> [heap, kind, f]]  kind \in {"none","data","cell","chan","freed"}
            \*    data: f = <<a, b>>   cell: f = <<content>>   chan: f = queue (oldest first)
  rooted,   \* [Thr -> SUBSET Obj]   host handles (RootedValue) rooted in each thread
  stack,    \* [Thr -> Seq(Val)]     values on the value stack of each thread
  hist      \* step records handed to the replay

vars == <<nthr, parent, vmof, gone, nobj, obj, rooted, stack, hist>>
View == <<nthr, parent, vmof, gone, nobj, obj, rooted, stack, Len(hist)>>

Live(t)  == t \in 1..nthr /\ vmof[t] \notin gone
Threads  == {t \in Thr : Live(t)}
Range(s) == {s[i] : i \in DOMAIN s}

RECURSIVE Depth(_)
Depth(t) == IF parent[t] = 0 THEN 1 ELSE 1 + Depth(parent[t])
Gen(h) == IF h > MaxThr THEN 0 ELSE Depth(h)

RECURSIVE Anc(_)
Anc(t) == IF parent[t] = 0 THEN {t} ELSE {t} \cup Anc(parent[t])      \* ancestors or self
Desc(t) == {u \in 1..nthr : t \in Anc(u)}                               \* descendants or self
HeapsOf(t) == Anc(t) \cup {GHeap(vmof[t])}                              \* heaps t may point into

\* can_share_values_with: same thread, or same VM and one is an ancestor of the other
Related(a, b) == a = b \/ (vmof[a] = vmof[b] /\ (a \in Anc(b) \/ b \in Anc(a)))

IsObj(v) == v > 0
Alive(o) == obj[o].kind \in {"data", "cell", "chan"}
Fields(o) == {v \in Range(obj[o].f) : v > 0}

Roots(t) == rooted[t] \cup {v \in Range(stack[t]) : v > 0}
\* values the code running on (or the host acting for) thread t can name directly
Direct(t) == {0} \cup rooted[t]

\* full reachability (what must stay valid)
RECURSIVE ReachAll(_, _)
ReachAll(todo, seen) ==
  IF todo = {} THEN seen
  ELSE LET v == CHOOSE x \in todo : TRUE IN
       IF v \in seen \/ ~Alive(v) THEN ReachAll(todo \ {v}, seen \cup {v})
       ELSE ReachAll((todo \ {v}) \cup Fields(v), seen \cup {v})
Reachable == ReachAll(UNION {Roots(t) : t \in Threads}, {})

---------------------------------------------------------------------------
(* Deep clone: Cloner::deep_clone_inner.  st = [map, new, dst, rgen, n, err]                *)
(*   map: source object -> copy, new: records of the copies, rgen = -1: force_full_clone   *)
Share(v, st) == v = 0 \/ (st.rgen >= 0 /\ Gen(obj[v].heap) <= st.rgen)

RECURSIVE Clone(_, _), CloneSeq(_, _, _, _)
Clone(v, st) ==
  IF Share(v, st) THEN [st |-> st, v |-> v]
  ELSE IF v \in DOMAIN st.map THEN [st |-> st, v |-> st.map[v]]
  ELSE IF obj[v].kind = "chan" THEN [st |-> [st EXCEPT !.err = TRUE], v |-> 0]   \* senders/receivers are not clonable
  ELSE IF st.n >= MaxObj THEN [st |-> [st EXCEPT !.err = TRUE, !.full = TRUE], v |-> 0]
  ELSE LET n   == st.n + 1
           st1 == [st EXCEPT !.n = n, !.map = (v :> n) @@ @]        \* entered before the fields: cycles are preserved
           r   == CloneSeq(obj[v].f, 1, <<>>, st1)
       IN [st |-> [r.st EXCEPT !.new = (n :> [heap |-> st.dst, kind |-> obj[v].kind, f |-> r.fs]) @@ @], v |-> n]
CloneSeq(fs, i, acc, st) ==
  IF i > Len(fs) THEN [st |-> st, fs |-> acc]
  ELSE LET r == Clone(fs[i], st) IN CloneSeq(fs, i + 1, Append(acc, r.v), r.st)

\* deep_clone_value(dst, owner = src): full clone iff the threads may not share values
DeepClone(dst, src, v) ==
  Clone(v, [map |-> <<>>, new |-> <<>>, dst |-> dst, n |-> nobj, err |-> FALSE, full |-> FALSE,
            rgen |-> IF Related(dst, src) \/ Mutant = "nofull" THEN Gen(dst) ELSE -1])

ApplyNew(new) == [o \in Obj |-> IF o \in DOMAIN new THEN new[o] ELSE obj[o]]

---------------------------------------------------------------------------
Snap == [nthr |-> nthr, parent |-> parent, vmof |-> vmof, gone |-> gone,
         obj |-> [o \in 1..nobj' |-> obj'[o]], rooted |-> rooted', stack |-> stack']
Rec(op, t, a, b, res) == [op |-> op, t |-> t, a |-> a, b |-> b, res |-> res,
                          nthr |-> nthr', parent |-> parent', vmof |-> vmof', gone |-> gone',
                          obj |-> [o \in 1..nobj' |-> obj'[o]], rooted |-> rooted', stack |-> stack']
Log(op, t, a, b, res) == hist' = Append(hist, Rec(op, t, a, b, res))
On(name) == name \in Acts /\ Len(hist) < MaxSteps

Init ==
  /\ nthr = 1 /\ parent = [t \in Thr |-> 0] /\ vmof = [t \in Thr |-> 1] /\ gone = {}
  /\ nobj = 0 /\ obj = [o \in Obj |-> [heap |-> 0, kind |-> "none", f |-> <<>>]]
  /\ rooted = [t \in Thr |-> {}] /\ stack = [t \in Thr |-> <<>>]
  /\ hist = <<>>

\* ---- allocation on thread t (a gluon constructor run on t); the result is rooted by the host
Alloc(t, a, b) ==
  /\ On("Alloc") /\ Live(t) /\ nobj < MaxObj /\ a \in Direct(t) /\ b \in Direct(t)
  /\ nobj' = nobj + 1
  /\ obj' = [obj EXCEPT ![nobj + 1] = [heap |-> t, kind |-> "data", f |-> <<a, b>>]]
  /\ rooted' = [rooted EXCEPT ![t] = @ \cup {nobj + 1}]
  /\ UNCHANGED <<nthr, parent, vmof, gone, stack>>
  /\ Log("alloc", t, a, b, nobj + 1)

Unroot(t, o) ==
  /\ On("Unroot") /\ Live(t) /\ o \in rooted[t]
  /\ rooted' = [rooted EXCEPT ![t] = @ \ {o}]
  /\ UNCHANGED <<nthr, parent, vmof, gone, nobj, obj, stack>>
  /\ Log("unroot", t, o, 0, 0)

Push(t, o) ==
  /\ On("Push") /\ Live(t) /\ o \in rooted[t] /\ Len(stack[t]) < MaxStack
  /\ stack' = [stack EXCEPT ![t] = Append(@, o)]
  /\ UNCHANGED <<nthr, parent, vmof, gone, nobj, obj, rooted>>
  /\ Log("push", t, o, 0, 0)

Pop(t) ==
  /\ On("Pop") /\ Live(t) /\ stack[t] # <<>>
  /\ stack' = [stack EXCEPT ![t] = SubSeq(@, 1, Len(@) - 1)]
  /\ UNCHANGED <<nthr, parent, vmof, gone, nobj, obj, rooted>>
  /\ Log("pop", t, 0, 0, 0)

\* the host takes a handle to the value on top of the stack
RootTop(t) ==
  /\ On("RootTop") /\ Live(t) /\ stack[t] # <<>> /\ stack[t][Len(stack[t])] > 0
  /\ stack[t][Len(stack[t])] \notin rooted[t]
  /\ rooted' = [rooted EXCEPT ![t] = @ \cup {stack[t][Len(stack[t])]}]
  /\ UNCHANGED <<nthr, parent, vmof, gone, nobj, obj, stack>>
  /\ Log("roottop", t, 0, 0, stack[t][Len(stack[t])])

Spawn(t) ==
  /\ On("Spawn") /\ Live(t) /\ nthr < MaxThr
  /\ nthr' = nthr + 1
  /\ parent' = [parent EXCEPT ![nthr + 1] = t]
  /\ vmof' = [vmof EXCEPT ![nthr + 1] = vmof[t]]
  /\ UNCHANGED <<gone, nobj, obj, rooted, stack>>
  /\ Log("spawn", t, 0, 0, nthr + 1)

NewVM ==
  /\ On("NewVM") /\ TwoVMs /\ nthr < MaxThr /\ \A t \in 1..nthr : vmof[t] = 1
  /\ nthr' = nthr + 1
  /\ parent' = [parent EXCEPT ![nthr + 1] = 0]
  /\ vmof' = [vmof EXCEPT ![nthr + 1] = 2]
  /\ UNCHANGED <<gone, nobj, obj, rooted, stack>>
  /\ Log("newvm", 0, 0, 0, nthr + 1)

\* the host drops every handle and thread of VM 2
DropVM ==
  /\ On("DropVM") /\ 2 \notin gone /\ \E t \in 1..nthr : vmof[t] = 2
  /\ gone' = gone \cup {2}
  /\ rooted' = [t \in Thr |-> IF vmof[t] = 2 THEN {} ELSE rooted[t]]
  /\ stack' = [t \in Thr |-> IF vmof[t] = 2 THEN <<>> ELSE stack[t]]
  /\ obj' = [o \in Obj |-> IF obj[o].kind # "none" /\ obj[o].heap \in {t \in 1..nthr : vmof[t] = 2} \cup {GHeap(2)}
                             THEN [heap |-> obj[o].heap, kind |-> "freed", f |-> <<>>] ELSE obj[o]]
  /\ UNCHANGED <<nthr, parent, vmof, nobj>>
  /\ Log("dropvm", 0, 0, 0, 0)

\* ---- references (reference.rs): the cell lives in the heap of the thread which created it
CellNew(t, v) ==
  /\ On("Cell") /\ Live(t) /\ nobj < MaxObj /\ v \in Direct(t)
  /\ nobj' = nobj + 1
  /\ obj' = [obj EXCEPT ![nobj + 1] = [heap |-> t, kind |-> "cell", f |-> <<v>>]]
  /\ rooted' = [rooted EXCEPT ![t] = @ \cup {nobj + 1}]
  /\ UNCHANGED <<nthr, parent, vmof, gone, stack>>
  /\ Log("cellnew", t, v, 0, nobj + 1)

\* `c <- v` run on t: the value is cloned into the heap of the cell's owner (reference.rs set)
CellSet(t, c, v) ==
  /\ On("Cell") /\ Live(t) /\ c \in rooted[t] /\ obj[c].kind = "cell" /\ v \in Direct(t)
  /\ UNCHANGED <<nthr, parent, vmof, gone, rooted, stack>>
  /\ LET owner == obj[c].heap
         r == IF Mutant = "cellnoclone"
                THEN [st |-> [n |-> nobj, new |-> <<>>, err |-> FALSE, full |-> FALSE], v |-> v]
                ELSE DeepClone(owner, owner, v)      \* deep_clone_value(&r.thread, v) with owner = r.thread
     IN /\ owner \in Thr
        /\ ~r.st.full
        /\ IF r.st.err
             THEN /\ UNCHANGED <<nobj, obj>> /\ Log("cellset", t, c, v, -1)
             ELSE /\ nobj' = r.st.n
                  /\ obj' = [ApplyNew(r.st.new) EXCEPT ![c].f = <<r.v>>]
                  /\ Log("cellset", t, c, v, r.v)

\* `load c` run on t: the content is returned as it is (no copy)
CellGet(t, c) ==
  /\ On("Cell") /\ Live(t) /\ c \in rooted[t] /\ obj[c].kind = "cell"
  /\ obj[c].f[1] > 0 /\ obj[c].f[1] \notin rooted[t]
  /\ rooted' = [rooted EXCEPT ![t] = @ \cup {obj[c].f[1]}]
  /\ UNCHANGED <<nthr, parent, vmof, gone, nobj, obj, stack>>
  /\ Log("cellget", t, c, 0, obj[c].f[1])

\* ---- channels (channel.rs): values are cloned into the heap of the creating thread
ChanNew(t) ==
  /\ On("Chan") /\ Live(t) /\ nobj < MaxObj
  /\ nobj' = nobj + 1
  /\ obj' = [obj EXCEPT ![nobj + 1] = [heap |-> t, kind |-> "chan", f |-> <<>>]]
  /\ rooted' = [rooted EXCEPT ![t] = @ \cup {nobj + 1}]
  /\ UNCHANGED <<nthr, parent, vmof, gone, stack>>
  /\ Log("channew", t, 0, 0, nobj + 1)

Send(t, c, v) ==
  /\ On("Chan") /\ Live(t) /\ c \in rooted[t] /\ obj[c].kind = "chan" /\ v \in Direct(t) /\ Len(obj[c].f) < 2
  /\ UNCHANGED <<nthr, parent, vmof, gone, rooted, stack>>
  /\ LET owner == obj[c].heap
         r == DeepClone(owner, owner, v)
     IN /\ owner \in Thr
        /\ ~r.st.full
        /\ IF r.st.err
             THEN /\ UNCHANGED <<nobj, obj>> /\ Log("send", t, c, v, -1)
             ELSE /\ nobj' = r.st.n
                  /\ obj' = [ApplyNew(r.st.new) EXCEPT ![c].f = Append(obj[c].f, r.v)]
                  /\ Log("send", t, c, v, r.v)

Recv(t, c) ==
  /\ On("Chan") /\ Live(t) /\ c \in rooted[t] /\ obj[c].kind = "chan" /\ obj[c].f # <<>>
  /\ UNCHANGED <<nthr, parent, vmof, gone, nobj, stack>>
  /\ LET v == Head(obj[c].f) IN
     /\ obj' = [obj EXCEPT ![c].f = Tail(@)]
     /\ rooted' = [rooted EXCEPT ![t] = IF v > 0 THEN @ \cup {v} ELSE @]
     /\ Log("recv", t, c, 0, v)

\* ---- the host moves a handle rooted in thread s to thread d (RootedValue::re_root and
\* Pushable for RootedValue): deep_clone_value(d, owner = s)
HostMove(s, d, v) ==
  /\ On("HostMove") /\ Live(s) /\ Live(d) /\ s # d /\ v \in rooted[s]
  /\ UNCHANGED <<nthr, parent, vmof, gone, stack>>
  /\ LET r == DeepClone(d, s, v) IN
     /\ ~r.st.full
     /\ IF r.st.err
          THEN /\ UNCHANGED <<nobj, obj, rooted>> /\ Log("move", s, d, v, -1)
          ELSE /\ nobj' = r.st.n
               /\ obj' = ApplyNew(r.st.new)
               /\ rooted' = [rooted EXCEPT ![d] = @ \cup {r.v}]
               /\ Log("move", s, d, v, r.v)

\* ---- std.thread.spawn_on (channel.rs spawn_on: OwnedFunction::from_value(&target, action)):
\* the action is rooted in the target thread as it is - no copy, no ownership test.
\* Only enabled in the configuration which predicts the departure (known finding).
SpawnOn(s, d, v) ==
  /\ On("SpawnOn") /\ Live(s) /\ Live(d) /\ s # d /\ vmof[s] = vmof[d] /\ v \in rooted[s]
  /\ rooted' = [rooted EXCEPT ![d] = @ \cup {v}]
  /\ UNCHANGED <<nthr, parent, vmof, gone, nobj, obj, stack>>
  /\ Log("spawnon", s, d, v, v)

\* ---- collection run by thread t (Thread::collect / check_collect): marks from the roots of t
\* and of all its descendants, does not enter objects of an older generation, sweeps the heaps
\* of t and of all its descendants
RECURSIVE Mark(_, _, _)
Mark(todo, seen, g) ==
  IF todo = {} THEN seen
  ELSE LET v == CHOOSE x \in todo : TRUE IN
       IF v \in seen \/ ~Alive(v) \/ Gen(obj[v].heap) < g THEN Mark(todo \ {v}, seen, g)
       ELSE Mark((todo \ {v}) \cup Fields(v), seen \cup {v}, g)

RootsGC(u) == IF Mutant = "norooted" THEN {v \in Range(stack[u]) : v > 0} ELSE Roots(u)

Collect(t) ==
  /\ On("Collect") /\ Live(t)
  /\ UNCHANGED <<nthr, parent, vmof, gone, nobj, rooted, stack>>
  /\ LET sub   == Desc(t)
         seen  == Mark(UNION {RootsGC(u) : u \in sub}, {}, Gen(t))
         swept == {o \in 1..nobj : Alive(o) /\ obj[o].heap \in sub /\ o \notin seen}
     IN /\ obj' = [o \in Obj |-> IF o \in swept THEN [heap |-> obj[o].heap, kind |-> "freed", f |-> <<>>] ELSE obj[o]]
        /\ Log("collect", t, 0, 0, Cardinality(swept))

(* Mutant "sweepgap": the collector of t releases a descendant u between marking it and sweeping its heap, and u   *)
(* allocates in the gap.  The three steps (mark from the current roots; Alloc on u; sweep everything unmarked) are   *)
(* composed into one action, which is all the invariant needs: the fresh object is rooted by u and swept.  The       *)
(* design (Collect above) holds every descendant from mark to sweep, i.e. Collect is one atomic step for the whole  *)
(* subtree; the conformance side of this is the parent-collects scenario of C05 / C14.                               *)
CollectGap(t, u) ==
  /\ Mutant = "sweepgap" /\ On("Collect") /\ On("Alloc") /\ Live(t) /\ Live(u) /\ u \in Desc(t) /\ u # t /\ nobj < MaxObj
  /\ LET sub   == Desc(t)
         seen  == Mark(UNION {RootsGC(x) : x \in sub}, {}, Gen(t))
         swept == {o \in 1..nobj : Alive(o) /\ obj[o].heap \in sub /\ o \notin seen} \cup {nobj + 1}
         new   == [heap |-> u, kind |-> "data", f |-> <<0, 0>>]
     IN /\ nobj' = nobj + 1
        /\ rooted' = [rooted EXCEPT ![u] = @ \cup {nobj + 1}]
        /\ obj' = [o \in Obj |-> IF o \in swept THEN [heap |-> (IF o = nobj + 1 THEN u ELSE obj[o].heap), kind |-> "freed", f |-> <<>>] ELSE obj[o]]
        /\ UNCHANGED <<nthr, parent, vmof, gone, stack>>
        /\ Log("collectgap", t, u, 0, nobj + 1)

Next ==
  \/ \E t, u \in Thr : CollectGap(t, u)
  \/ \E t \in Thr : \E a, b \in 0..MaxObj : Alloc(t, a, b)
  \/ \E t \in Thr, o \in Obj : Unroot(t, o) \/ Push(t, o)
  \/ \E t \in Thr : Pop(t) \/ RootTop(t) \/ Spawn(t) \/ Collect(t) \/ ChanNew(t)
  \/ NewVM \/ DropVM
  \/ \E t \in Thr, v \in 0..MaxObj : CellNew(t, v)
  \/ \E t \in Thr, c \in Obj, v \in 0..MaxObj : CellSet(t, c, v) \/ Send(t, c, v)
  \/ \E t \in Thr, c \in Obj : CellGet(t, c) \/ Recv(t, c)
  \/ \E s, d \in Thr, v \in Obj : HostMove(s, d, v) \/ SpawnOn(s, d, v)

Spec == Init /\ [][Next]_vars

---------------------------------------------------------------------------
(* Properties *)

\* every pointer stored in an object of heap h, or held by a root of thread t, points into that
\* heap or one of its ancestors (never a sibling, a descendant or another VM)
HeapsOfHeap(h) == IF h > MaxThr THEN {h} ELSE HeapsOf(h)
Isolation ==
  /\ \A o \in 1..nobj : Alive(o) => \A v \in Fields(o) : obj[v].heap \in HeapsOfHeap(obj[o].heap)
  /\ \A t \in Threads : \A v \in Roots(t) : obj[v].heap \in HeapsOf(t)

\* nothing reachable has been reclaimed
NoDangling == \A o \in Reachable : Alive(o)

\* a collection frees exactly the unreachable objects of the swept heaps and changes nothing else
CollectExact ==
  [][\A t \in Thr : Collect(t) =>
        /\ \A o \in 1..nobj : (Alive(o) /\ o \in Reachable) => obj'[o] = obj[o]
        /\ \A o \in 1..nobj : (Alive(o) /\ obj[o].heap \in Desc(t) /\ o \notin Reachable) => obj'[o].kind = "freed"]_vars

\* graph isomorphism of the value rooted at a (before) and b (after the primed step), modulo shared objects
RECURSIVE Iso(_, _, _, _)
Iso(a, b, o1, o2) ==     \* o1, o2: object tables;  bounded by the number of objects (acyclic unfolding cut by depth)
  LET F[x \in 0..MaxObj, y \in 0..MaxObj, d \in 0..MaxObj] ==
        IF x = 0 \/ y = 0 THEN x = y
        ELSE IF x = y THEN TRUE
        ELSE IF d = 0 THEN TRUE
        ELSE /\ o1[x].kind = o2[y].kind
             /\ Len(o1[x].f) = Len(o2[y].f)
             /\ \A i \in DOMAIN o1[x].f : F[o1[x].f[i], o2[y].f[i], d - 1]
  IN F[a, b, MaxObj]

\* every transfer delivers a structurally equal value and leaves the source unchanged
CloneFaithful ==
  [][\A i \in {Len(hist')} : (hist' # hist /\ hist'[i].op \in {"move", "cellset", "send"} /\ hist'[i].res > 0) =>
        LET src == IF hist'[i].op = "move" THEN hist'[i].b ELSE hist'[i].b IN
          /\ Iso(src, hist'[i].res, obj, obj')
          /\ \A o \in 1..nobj : obj[o].kind = "data" => obj'[o] = obj[o]]_vars

TypeOK ==
  /\ nthr \in 1..MaxThr /\ nobj \in 0..MaxObj
  /\ \A t \in Thr : Len(stack[t]) <= MaxStack

---------------------------------------------------------------------------
EmitWalk == (Emit /\ Len(hist) = MaxSteps) => PrintT(<<"WALK", ToJson(hist)>>)

(* Scenario traps: configurations whose handling by the collector / the cloner is delicate.  TLC's breadth-first  *)
(* search reaches each distinct trapped state by a shortest walk, which is emitted for the replay; the harness   *)
(* then lets every thread collect twice and re-checks the graph (collections placed after the configuration).    *)
NotRooted(a) == \A t \in Threads : a \notin Roots(t)
\* an object of a child / grandchild heap is the only path to an object of another (ancestor) heap
DeepOnlyPath ==
  \E o, a \in 1..nobj : /\ Alive(o) /\ Alive(a) /\ a \in Fields(o) /\ obj[a].heap # obj[o].heap
                         /\ obj[o].heap \in Thr /\ Gen(obj[o].heap) >= 2 /\ NotRooted(a) /\ o \in Reachable
\* a cell is kept alive only by a thread which does not own it and its content is reachable through the cell only
ForeignCell ==
  \E c \in 1..nobj : /\ Alive(c) /\ obj[c].kind = "cell" /\ obj[c].f[1] > 0 /\ NotRooted(obj[c].f[1])
                      /\ obj[c].heap \in Thr /\ c \notin Roots(obj[c].heap) /\ c \in Reachable
\* values wait in a channel whose ends are held only by a thread which did not create it
ForeignQueue ==
  \E c \in 1..nobj : /\ Alive(c) /\ obj[c].kind = "chan" /\ \E i \in DOMAIN obj[c].f : obj[c].f[i] > 0 /\ NotRooted(obj[c].f[i])
                      /\ obj[c].heap \in Thr /\ c \notin Roots(obj[c].heap) /\ c \in Reachable
\* a value lives on in another VM after its source was dropped
SurvivesDrop == gone # {} /\ \E o \in 1..nobj : Alive(o) /\ o \in Reachable /\ obj[o].kind = "data" /\ Fields(o) # {}
DeepOnlyPath3 ==
  \E o, a \in 1..nobj : /\ Alive(o) /\ Alive(a) /\ a \in Fields(o) /\ obj[a].heap # obj[o].heap
                         /\ obj[o].heap \in Thr /\ Gen(obj[o].heap) >= 3 /\ NotRooted(a) /\ o \in Reachable
Trapped == \/ ("deep" \in Traps /\ DeepOnlyPath) \/ ("deep3" \in Traps /\ DeepOnlyPath3)
           \/ ("cell" \in Traps /\ ForeignCell) \/ ("chan" \in Traps /\ ForeignQueue) \/ ("vm" \in Traps /\ SurvivesDrop)
EmitTraps == (Emit /\ hist # <<>> /\ Trapped) => PrintT(<<"WALK", ToJson(hist)>>)
=============================================================================

SPECIFICATION Spec
CONSTANTS
  MaxObj = 3
  MaxThr = 3
  MaxStack = 1
  MaxSteps = 7
  Acts = {"Alloc", "Unroot", "Spawn", "HostMove", "Push"}
  TwoVMs = FALSE
  Emit = TRUE
  Traps = {"deep"}
  Mutant = "none"
VIEW View
INVARIANTS EmitTraps
CHECK_DEADLOCK FALSE

SPECIFICATION Spec
CONSTANTS
  MaxSize = 6
  MaxScope = 3
  Emit = TRUE
  StartScope = 0
  Prods = {"app", "arr2", "if", "int", "lam", "let", "lt", "mopt", "none", "px", "py", "recx", "recxy", "some", "str", "tt", "tup", "var"}
INVARIANTS Emitted
CHECK_DEADLOCK FALSE

---- MODULE MC_Infix ----
EXTENDS Infix
\* two operators for every (precedence, associativity) combination of three levels, so that every relation
\* (lower / equal / higher) x (same / different associativity) occurs
MCTable == << [prec |-> 5, assoc |-> "L"], [prec |-> 5, assoc |-> "R"], [prec |-> 6, assoc |-> "L"],
              [prec |-> 6, assoc |-> "R"], [prec |-> 7, assoc |-> "L"], [prec |-> 7, assoc |-> "R"],
              [prec |-> 5, assoc |-> "L"], [prec |-> 7, assoc |-> "R"] >>
====

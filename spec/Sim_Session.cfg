SPECIFICATION Spec
CONSTANTS
  NProg = 40
  NVM = 3
  MaxLen = 12
  Emit = TRUE
INVARIANTS EmitHistory Deterministic AtBase
CHECK_DEADLOCK FALSE

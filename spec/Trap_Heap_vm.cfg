SPECIFICATION Spec
CONSTANTS
  MaxObj = 3
  MaxThr = 3
  MaxStack = 1
  MaxSteps = 7
  Acts = {"Alloc", "Unroot", "Spawn", "HostMove", "NewVM", "DropVM"}
  TwoVMs = TRUE
  Emit = TRUE
  Traps = {"vm"}
  Mutant = "none"
VIEW View
INVARIANTS EmitTraps
CHECK_DEADLOCK FALSE

SPECIFICATION Spec
CONSTANTS
  Table <- MCTable
  MaxOps = 5
  Emit = FALSE
INVARIANTS MachineEqualsGroup
CHECK_DEADLOCK FALSE

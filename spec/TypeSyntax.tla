----------------------------- MODULE TypeSyntax -----------------------------
(* Type syntax of gluon (base/src/types/pretty_print.rs, parser/src/grammar.lalrpop).                          *)
(* A generator of type ASTs (prefix-coded) over builtins, variables, constructors, functions (explicit and     *)
(* implicit argument), applications, tuples, records (closed and with a row tail), variants and forall;        *)
(* a precedence-aware printer to token sequences and a recursive-descent recogniser for the core of the        *)
(* grammar (atoms, application, function arrows, forall).  TLC checks Parse(Print(t)) = t on that core for      *)
(* every enumerated type; the harness builds every generated type as a real ArcType, renders it at several      *)
(* widths, parses it back with the real parser and compares structurally.                                      *)
EXTENDS Integers, Sequences, FiniteSets, TLC, Json

CONSTANTS MaxSize, Core, Emit     \* Core = TRUE: only the productions the in-model printer / parser cover

VARIABLES prefix, pending
vars == <<prefix, pending>>
N(g, a) == <<g, a>>
Init == prefix = <<>> /\ pending = 1

Arity(g) == CASE g \in {"int", "str", "var", "con", "unit"} -> 0
              [] g \in {"app1", "rec1", "orec", "var1", "forall"} -> 1
              [] g \in {"fn", "ifn", "afn", "app2", "tup", "rec2"} -> 2

Leafs == {N("int", 0), N("str", 0), N("var", 1), N("var", 2), N("con", 1)}
CoreNodes == Leafs \cup {N("fn", 0), N("app1", 0), N("app2", 0), N("forall", 1)}
\* afn: a function type in applied representation, `(->) a b` (what instantiating a higher-kinded variable with (->)
\* produces); it denotes the same type as fn and must be rendered so that it reads back as one
AllNodes == CoreNodes \cup {N("afn", 0), N("ifn", 0), N("tup", 0), N("rec1", 0), N("rec2", 0), N("orec", 0), N("var1", 0), N("forall", 2), N("con", 2), N("unit", 0)}

Next == /\ pending > 0
        /\ \E n \in (IF Core THEN CoreNodes ELSE AllNodes) :
             /\ prefix' = Append(prefix, n)
             /\ pending' = pending - 1 + Arity(n[1])
             /\ Len(prefix') + pending' <= MaxSize
             \* `forall` directly under `forall` is merged by the printer; not generated
             /\ ~(n[1] = "forall" /\ prefix # <<>> /\ prefix[Len(prefix)][1] = "forall")
Spec == Init /\ [][Next]_vars

---------------------------------------------------------------------------
(* trees, printer and recogniser for the core *)
RECURSIVE Tree(_, _)
\* [t |-> tree, n |-> next index]
Tree(p, i) ==
  LET g == p[i][1] a == p[i][2] IN
  IF Arity(g) = 0 THEN [t |-> <<g, a>>, n |-> i + 1]
  ELSE IF Arity(g) = 1 THEN LET x == Tree(p, i + 1) IN [t |-> <<g, a, x.t>>, n |-> x.n]
  ELSE LET x == Tree(p, i + 1) y == Tree(p, x.n) IN [t |-> <<g, a, x.t, y.t>>, n |-> y.n]

\* precedence levels: 0 = top (forall, arrows), 1 = argument of an arrow (application), 2 = argument of an application (atom)
RECURSIVE Show(_, _)
Paren(s, yes) == IF yes THEN <<"(">> \o s \o <<")">> ELSE s
Show(t, lvl) ==
  LET g == t[1] IN
  CASE g = "int" -> <<"Int">>
    [] g = "str" -> <<"String">>
    [] g = "var" -> <<IF t[2] = 1 THEN "a" ELSE "b">>
    [] g = "con" -> <<"Foo">>
    [] g = "fn" -> Paren(Show(t[3], 1) \o <<"->">> \o Show(t[4], 0), lvl >= 1)
    [] g = "app1" -> Paren(<<"List">> \o Show(t[3], 2), lvl >= 2)
    [] g = "app2" -> Paren(<<"Map">> \o Show(t[3], 2) \o Show(t[4], 2), lvl >= 2)
    [] g = "forall" -> Paren(<<"forall", "a", ".">> \o Show(t[3], 0), lvl >= 1)

\* recogniser: Parse*(toks, i) = [t, n] or [t |-> <<"fail">>]
Fail == [t |-> <<"fail">>, n |-> 0]
RECURSIVE PType(_, _), PApp(_, _), PAtom(_, _), PArgs(_, _, _)
PAtom(s, i) ==
  IF i > Len(s) THEN Fail
  ELSE CASE s[i] = "Int" -> [t |-> <<"int", 0>>, n |-> i + 1]
         [] s[i] = "String" -> [t |-> <<"str", 0>>, n |-> i + 1]
         [] s[i] = "a" -> [t |-> <<"var", 1>>, n |-> i + 1]
         [] s[i] = "b" -> [t |-> <<"var", 2>>, n |-> i + 1]
         [] s[i] = "Foo" -> [t |-> <<"con", 1>>, n |-> i + 1]
         [] s[i] = "(" -> (LET r == PType(s, i + 1) IN
                           IF r.t = <<"fail">> \/ r.n > Len(s) \/ s[r.n] # ")" THEN Fail ELSE [t |-> r.t, n |-> r.n + 1])
         [] OTHER -> Fail
IsAtomStart(s, i) == i <= Len(s) /\ s[i] \in {"Int", "String", "a", "b", "Foo", "("}
PApp(s, i) ==
  IF i <= Len(s) /\ s[i] = "List" THEN (LET x == PAtom(s, i + 1) IN IF x.t = <<"fail">> THEN Fail ELSE [t |-> <<"app1", 0, x.t>>, n |-> x.n])
  ELSE IF i <= Len(s) /\ s[i] = "Map" THEN
         (LET x == PAtom(s, i + 1) IN
          IF x.t = <<"fail">> THEN Fail
          ELSE LET y == PAtom(s, x.n) IN IF y.t = <<"fail">> THEN Fail ELSE [t |-> <<"app2", 0, x.t, y.t>>, n |-> y.n])
  ELSE PAtom(s, i)
PType(s, i) ==
  IF i <= Len(s) /\ s[i] = "forall" THEN
       (IF i + 2 > Len(s) \/ s[i + 2] # "." THEN Fail
        ELSE LET r == PType(s, i + 3) IN IF r.t = <<"fail">> THEN Fail ELSE [t |-> <<"forall", 1, r.t>>, n |-> r.n])
  ELSE LET l == PApp(s, i) IN
       IF l.t = <<"fail">> THEN Fail
       ELSE IF l.n <= Len(s) /\ s[l.n] = "->" THEN
              (LET r == PType(s, l.n + 1) IN IF r.t = <<"fail">> THEN Fail ELSE [t |-> <<"fn", 0, l.t, r.t>>, n |-> r.n])
       ELSE l
PArgs(s, i, acc) == acc

Done == pending = 0
RoundTrip ==
  (Core /\ Done) => LET t == Tree(prefix, 1).t
                        toks == Show(t, 0)
                        r == PType(toks, 1)
                    IN r.t = t /\ r.n = Len(toks) + 1
EmitType == (Emit /\ Done) => PrintT(<<"TYPE", ToJson(prefix)>>)
=============================================================================

--------------------------- MODULE Trace_MemLimit ---------------------------
(* Validates recorded gc events {ev, size, total, allocated, limit} of one heap against MemLimit:          *)
(* alloc: the accounted memory after the step is what the event says and stays within the limit (plus, as a *)
(* named deviation, less than one header above it); oom / free as specified.                               *)
EXTENDS Integers, Sequences, TLC, Json, IOUtils

CONSTANT Strict      \* TRUE: the contract (allocated <= limit); FALSE: tolerate the coded overshoot (< limit + header)

Rec == ndJsonDeserialize(IOEnv.TRACE)
VARIABLES allocated, l
vars == <<allocated, l>>

Init == allocated = Rec[1].before /\ l = 1
Ev == Rec[l]
Next ==
  /\ l <= Len(Rec)
  /\ l' = l + 1
  /\ CASE Ev.ev = "alloc" ->
            /\ Ev.allocated = allocated + Ev.total
            /\ (Ev.limit < 0 \/ (IF Strict THEN Ev.allocated <= Ev.limit ELSE Ev.allocated < Ev.limit + (Ev.total - Ev.size)))
            /\ allocated' = Ev.allocated
       [] Ev.ev = "oom" -> Ev.allocated = allocated /\ Ev.allocated + Ev.size >= Ev.limit /\ UNCHANGED allocated
       [] Ev.ev = "free" -> Ev.allocated = allocated - Ev.total /\ allocated' = Ev.allocated
       [] Ev.ev = "reset" -> allocated' = Ev.before
       [] OTHER -> UNCHANGED allocated
Spec == Init /\ [][Next]_vars
Accepted == LET d == TLCGet("stats").diameter IN
            IF d - 1 = Len(Rec) THEN TRUE ELSE Print(<<"TRACE REJECTED at event", d, Rec[d]>>, FALSE)
=============================================================================

--------------------------- MODULE Trace_MemLimit ---------------------------
(* Validates recorded gc events {ev, heap, size, total, allocated, limit} of the limited heap of a run against       *)
(* MemLimit.  Runs are concatenated, a `base` event (field `before`) starts each one.                                *)
(*   alloc: the accounted memory after the step is what the event says and is within the limit;                      *)
(*   oom:   nothing is allocated and the refusal is justified: the block (header + value) would reach the limit;     *)
(*   free:  the accounted memory shrinks by the block.                                                               *)
(* Mode = "contract": the property as written (allocated <= limit after every allocation).                            *)
(* Mode = "report":   named deviation of the code - the value that reports an OutOfMemory error to the program is     *)
(*                    itself allocated with alloc_ignore_limit: ONE allocation directly after an `oom` event may      *)
(*                    exceed the limit.                                                                               *)
EXTENDS Integers, Sequences, TLC, Json, IOUtils

CONSTANT Mode

Rec == ndJsonDeserialize(IOEnv.TRACE)
VARIABLES allocated, afterOom, l
vars == <<allocated, afterOom, l>>

AllocIdx == {i \in 1..Len(Rec) : Rec[i].ev = "alloc"}
Hdr == IF AllocIdx = {} THEN 0 ELSE LET i == CHOOSE i \in AllocIdx : TRUE IN Rec[i].total - Rec[i].size

Init == allocated = Rec[1].before /\ afterOom = FALSE /\ l = 1
Ev == Rec[l]
Next ==
  /\ l <= Len(Rec)
  /\ l' = l + 1
  /\ CASE Ev.ev = "alloc" ->
            /\ Ev.allocated = allocated + Ev.total
            /\ (Ev.limit < 0 \/ Ev.allocated <= Ev.limit \/ (Mode = "report" /\ afterOom))
            /\ allocated' = Ev.allocated /\ afterOom' = FALSE
       [] Ev.ev = "oom" -> /\ Ev.allocated = allocated /\ Ev.allocated + Hdr + Ev.size >= Ev.limit
                           /\ UNCHANGED allocated /\ afterOom' = TRUE
       [] Ev.ev = "free" -> Ev.allocated = allocated - Ev.total /\ allocated' = Ev.allocated /\ UNCHANGED afterOom
       [] Ev.ev = "base" -> allocated' = Ev.before /\ afterOom' = FALSE
       [] OTHER -> UNCHANGED <<allocated, afterOom>>
Spec == Init /\ [][Next]_vars
Accepted == LET d == TLCGet("stats").diameter IN
            IF d - 1 = Len(Rec) THEN TRUE ELSE Print(<<"TRACE REJECTED at event", d, Rec[d]>>, FALSE)
=============================================================================

SPECIFICATION Spec
CONSTANTS
  MaxChan = 2
  MaxCell = 1
  MaxLazy = 2
  MaxThread = 2
  MaxSteps = 7
  Ideal = TRUE
  ResumeFailed = TRUE
  Emit = FALSE
VIEW View
INVARIANTS TypeOK FifoExactlyOnce RecvNeverBlocks LastWrite ForceOnce ForceErrors NoHang ResumeDead
CHECK_DEADLOCK FALSE

SPECIFICATION Spec
CONSTANTS
  Procs = {"A", "B"}
  Scripts <- CollectVsPush
INVARIANTS NoCyclicWait

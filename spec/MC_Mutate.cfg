SPECIFICATION Spec
CONSTANTS
  Slots = 12
  MaxEdits = 2
  Emit = TRUE
INVARIANTS SmallEdit EmitScript
CHECK_DEADLOCK FALSE

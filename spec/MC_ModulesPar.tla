---- MODULE MC_ModulesPar ----
EXTENDS ModulesPar
MCDeps == (1 :> {}) @@ (2 :> {1}) @@ (3 :> {1, 2})
MCWants == ("A" :> 3) @@ ("B" :> 3) @@ ("C" :> 2)
====

--------------------------- MODULE Trace_Session ---------------------------
(* Validates a recorded session (events {vm, prog, obs, frames, slen}) against Session.tla:             *)
(* every event must be a Run step of the specification.                                                 *)
EXTENDS Session, IOUtils

Rec == ndJsonDeserialize(IOEnv.TRACE)
VARIABLE l

TraceInit == Init /\ l = 1
TraceNext == /\ l <= Len(Rec)
             /\ Run(Rec[l].vm, Rec[l].prog, Rec[l].obs, Rec[l].frames, Rec[l].slen)
             /\ l' = l + 1
TraceSpec == TraceInit /\ [][TraceNext]_<<vars, l>>

TraceAccepted ==
  LET d == TLCGet("stats").diameter IN
  IF d - 1 = Len(Rec) THEN TRUE
  ELSE Print(<<"TRACE REJECTED at event", d, Rec[d]>>, FALSE)
=============================================================================

------------------------------- MODULE Infix -------------------------------
(* Grouping of infix operator chains (parser/src/infix.rs reparse): the shift/reduce machine with an argument  *)
(* stack and an operator stack, against the declarative definition: split the chain at the operators of the    *)
(* lowest precedence; they must all share one associativity (otherwise: conflicting fixities); left             *)
(* associative operators split at the last of them, right associative ones at the first.                        *)
(* TLC checks Machine = Group for every chain up to MaxOps operators over the operator table; the harness       *)
(* replays every chain through the real parser (operators defined with #[infix(..)] or taken from the built-in  *)
(* table) and compares the grouping / the conflict error.                                                       *)
EXTENDS Integers, Sequences, FiniteSets, TLC, Json

CONSTANTS Table,     \* sequence of [prec |-> Nat, assoc |-> "L" | "R"]
          MaxOps, Emit

Ops == 1..Len(Table)
VARIABLE chain       \* sequence of operator indices; operand i stands left of operator i
vars == <<chain>>
Init == chain = <<>>
Next == Len(chain) < MaxOps /\ \E o \in Ops : chain' = Append(chain, o)
Spec == Init /\ [][Next]_vars

Prec(c, k) == Table[c[k]].prec
Assoc(c, k) == Table[c[k]].assoc
Leaf(i) == <<"a", i>>
Node(k, l, r) == <<"n", k, l, r>>
Conflict == <<"conflict">>

\* ---- declarative grouping of operands lo..hi (operators lo..hi-1)
RECURSIVE Group(_, _, _)
Group(c, lo, hi) ==
  IF lo = hi THEN Leaf(lo)
  ELSE LET ks == lo..(hi - 1)
           minp == CHOOSE p \in {Prec(c, k) : k \in ks} : \A k \in ks : p <= Prec(c, k)
           S == {k \in ks : Prec(c, k) = minp}
       IN IF \E j, k \in S : Assoc(c, j) # Assoc(c, k) THEN Conflict
          ELSE LET pos == IF Assoc(c, CHOOSE k \in S : TRUE) = "L"
                            THEN CHOOSE k \in S : \A j \in S : j <= k
                            ELSE CHOOSE k \in S : \A j \in S : k <= j
                   l == Group(c, lo, pos)
                   r == Group(c, pos + 1, hi)
               IN IF l = Conflict \/ r = Conflict THEN Conflict ELSE Node(pos, l, r)

\* ---- the machine
Reduce(args, k) == SubSeq(args, 1, Len(args) - 2) \o <<Node(k, args[Len(args) - 1], args[Len(args)])>>

RECURSIVE Process(_, _, _, _)
\* processes operator k against the stacks; returns [args, ops, err]
Process(c, args, ops, k) ==
  IF ops = <<>> THEN [args |-> args, ops |-> <<k>>, err |-> FALSE]
  ELSE LET s == ops[Len(ops)]
           rest == SubSeq(ops, 1, Len(ops) - 1)
       IN IF Prec(c, k) < Prec(c, s) THEN Process(c, Reduce(args, s), rest, k)                      \* reduce, re-queue k
          ELSE IF Prec(c, k) > Prec(c, s) THEN [args |-> args, ops |-> Append(ops, k), err |-> FALSE]  \* shift
          ELSE IF Assoc(c, k) = "L" /\ Assoc(c, s) = "L" THEN Process(c, Reduce(args, s), rest, k)
          ELSE IF Assoc(c, k) = "R" /\ Assoc(c, s) = "R" THEN [args |-> args, ops |-> Append(ops, k), err |-> FALSE]
          ELSE [args |-> args, ops |-> ops, err |-> TRUE]

RECURSIVE Feed(_, _, _, _), Drain(_, _)
Feed(c, args, ops, k) ==
  IF k > Len(c) THEN [args |-> args, ops |-> ops, err |-> FALSE]
  ELSE LET r == Process(c, args, ops, k) IN
       IF r.err THEN r ELSE Feed(c, Append(r.args, Leaf(k + 1)), r.ops, k + 1)
Drain(args, ops) == IF ops = <<>> THEN args[1] ELSE Drain(Reduce(args, ops[Len(ops)]), SubSeq(ops, 1, Len(ops) - 1))

\* a successful parse is re-visited: every sub-chain is reparsed as well, so a conflict anywhere is reported
Machine(c) ==
  LET r == Feed(c, <<Leaf(1)>>, <<>>, 1) IN
  IF r.err THEN Conflict ELSE Drain(r.args, r.ops)

MachineEqualsGroup == chain # <<>> => Machine(chain) = Group(chain, 1, Len(chain) + 1)
\* the operator stack is strictly increasing in binding power from bottom to top (what makes one reduce step enough)
EmitChain == (Emit /\ chain # <<>>) => PrintT(<<"CHAIN", ToJson([c |-> chain, g |-> Group(chain, 1, Len(chain) + 1)])>>)
=============================================================================

----------------------------- MODULE StdModels -----------------------------
(* Mathematical models of standard-library structures (C19):                                                    *)
(*   std.map      - a finite map ordered by key: insert / find / to_list                                        *)
(*   std.list     - sort, filter, folds, append on sequences; std.array slice / index                            *)
(*   std.string   - byte-indexed UTF-8 functions on sequences of code points (UTF-8 lengths 1..4)                 *)
(* TLC enumerates operation sequences / inputs and computes the expected results with these definitions; the      *)
(* harness runs the same cases through the real library.                                                         *)
EXTENDS Integers, Sequences, FiniteSets, TLC, Json, SequencesExt, Folds

CONSTANTS MaxOps, MaxLen, Emit, Part      \* Part: which family is enumerated ("map", "seq", "str")

Keys == 1..3
Vals == 1..2
Elems == 1..3
\* code points by their UTF-8 length: 1 = "a", 2 = "é", 3 = "€", 4 = "😀"
CP == 1..4

VARIABLES ops, xs
vars == <<ops, xs>>
Init == ops = <<>> /\ xs = <<>>

MapOp == [op : {"insert"}, k : Keys, v : Vals] \cup [op : {"find"}, k : Keys, v : {0}]
NextMap == Part = "map" /\ Len(ops) < MaxOps /\ \E o \in MapOp : ops' = Append(ops, o) /\ UNCHANGED xs
NextSeq == Part = "seq" /\ Len(xs) < MaxLen /\ \E e \in Elems : xs' = Append(xs, e) /\ UNCHANGED ops
NextStr == Part = "str" /\ Len(xs) < MaxLen /\ \E c \in CP : xs' = Append(xs, c) /\ UNCHANGED ops
Next == NextMap \/ NextSeq \/ NextStr
Spec == Init /\ [][Next]_vars

---------------------------------------------------------------------------
(* finite map *)
RECURSIVE RunMap(_, _, _)
\* m: function on a subset of Keys; returns [m, finds] finds: sequence of 0 (absent) or value
RunMap(os, m, finds) ==
  IF os = <<>> THEN [m |-> m, finds |-> finds]
  ELSE LET o == Head(os) IN
       IF o.op = "insert" THEN RunMap(Tail(os), (o.k :> o.v) @@ m, finds)
       ELSE RunMap(Tail(os), m, Append(finds, IF o.k \in DOMAIN m THEN m[o.k] ELSE 0))
ToList(m) == LET ks == SetToSortSeq(DOMAIN m, <) IN [i \in DOMAIN ks |-> <<ks[i], m[ks[i]]>>]
MapResult == LET r == RunMap(ops, <<>>, <<>>) IN [finds |-> r.finds, list |-> ToList(r.m)]

(* sequences *)
Sorted(s) == SortSeq(s, <)
Even(x) == x % 2 = 0
Sum(s) == FoldLeft(LAMBDA a, b : a + b, 0, s)
SeqResult == [sorted |-> Sorted(xs), evens |-> SelectSeq(xs, Even), sum |-> Sum(xs), twice |-> xs \o xs,
              rev |-> Reverse(xs), len |-> Len(xs)]

(* strings as sequences of code points; byte offsets *)
Bytes(s) == FoldLeft(LAMBDA a, b : a + b, 0, s)
\* byte offsets which are character boundaries of s
RECURSIVE Boundaries(_, _)
Boundaries(s, at) == IF s = <<>> THEN {at} ELSE {at} \cup Boundaries(Tail(s), at + Head(s))
StrResult == [bytes |-> Bytes(xs), chars |-> Len(xs), boundaries |-> Boundaries(xs, 0)]

\* model-level laws (checked by TLC on every enumerated case)
Laws ==
  /\ Part = "seq" => /\ Len(Sorted(xs)) = Len(xs)
                     /\ \A i \in 1..(Len(xs) - 1) : Sorted(xs)[i] <= Sorted(xs)[i + 1]
                     /\ Sum(xs \o xs) = 2 * Sum(xs)
  /\ Part = "map" => LET l == MapResult.list IN \A i \in 1..(Len(l) - 1) : l[i][1] < l[i + 1][1]
  /\ Part = "str" => Bytes(xs) \in Boundaries(xs, 0) /\ Cardinality(Boundaries(xs, 0)) = Len(xs) + 1

EmitCase ==
  Emit => CASE Part = "map" -> (ops = <<>> \/ PrintT(<<"CASE", ToJson([part |-> "map", ops |-> ops, r |-> MapResult])>>))
            [] Part = "seq" -> PrintT(<<"CASE", ToJson([part |-> "seq", xs |-> xs, r |-> SeqResult])>>)
            [] Part = "str" -> PrintT(<<"CASE", ToJson([part |-> "str", xs |-> xs, r |-> StrResult])>>)
=============================================================================

SPECIFICATION Spec
CONSTANTS
  Mode = "contract"
POSTCONDITION Accepted
CHECK_DEADLOCK FALSE

SPECIFICATION Spec
CONSTANTS
  Strict = TRUE
POSTCONDITION Accepted
CHECK_DEADLOCK FALSE

------------------------------ MODULE TailCtx ------------------------------
(* Tail-position contexts of the core language (vm/src/compiler.rs: tail_position is passed down through      *)
(* if / match / let / block bodies and the right operand of && and ||).  A loop whose recursive call sits in   *)
(* a composition of such contexts must run in constant stack space (TailCall replaces the frame).              *)
(* TLC enumerates all compositions up to a depth; the harness runs each loop for 10^5 iterations under a       *)
(* small stack limit and compares the peak stack use of 100 and 10^5 iterations.                               *)
EXTENDS Integers, Sequences, FiniteSets, TLC, Json

CONSTANTS MaxDepth, Emit

\* context constructors; the hole K is the tail position of each
IntCtx  == {"if-then", "if-else", "match-some", "match-none", "match-lit", "let-body", "letrec-body", "block"}
BoolCtx == {"if-then", "if-else", "match-some", "let-body", "or-rhs", "and-rhs"}
Shapes  == {"direct", "mutual", "closure", "overapply"}

VARIABLES ctx, ty, shape, done
vars == <<ctx, ty, shape, done>>

Init == ctx = <<>> /\ ty \in {"Int", "Bool"} /\ shape \in Shapes /\ done = FALSE

Push == /\ ~done /\ Len(ctx) < MaxDepth
        /\ \E c \in (IF ty = "Int" THEN IntCtx ELSE BoolCtx) : ctx' = Append(ctx, c)
        /\ UNCHANGED <<ty, shape, done>>
Finish == ~done /\ done' = TRUE /\ UNCHANGED <<ctx, ty, shape>>
Next == Push \/ Finish
Spec == Init /\ [][Next]_vars

\* every constructor keeps its hole in tail position (by the definition of tail position of the language):
\* the composition therefore is a tail context
TailPreserving(c) == c \in IntCtx \cup BoolCtx
AllTail == \A i \in DOMAIN ctx : TailPreserving(ctx[i])
EmitCtx == (Emit /\ done) => PrintT(<<"CTX", ToJson([ctx |-> ctx, ty |-> ty, shape |-> shape])>>)
=============================================================================

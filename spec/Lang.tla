------------------------------- MODULE Lang -------------------------------
(* Core language of gluon: a type-directed program generator (Syntax + Typing), and the      *)
(* documented strict call-by-value semantics as a recursive evaluator (Eval) with an effect   *)
(* log and explicit failure classes.                                                          *)
(*                                                                                           *)
(* A state of the generator is a prefix-coded partial program and the stack of holes still to *)
(* fill (expected type + scope).  One action per production fills the leftmost hole; only     *)
(* productions of the expected type are enabled, so every terminal state is a closed,         *)
(* well-typed program.  At terminal states TLC evaluates the program and prints one JSON      *)
(* behaviour (program, type, outcome, effect log) which the harness replays into the real     *)
(* pipeline (parser, checker, compiler, VM).                                                  *)
(*                                                                                           *)
(* Integers are symbolic: [k, d] denotes k * 2^62 + d, exact for the operations used, so that  *)
(* 64-bit overflow is decided inside TLC's 32-bit arithmetic.                                  *)
EXTENDS Integers, Sequences, FiniteSets, TLC, Json

CONSTANTS MaxSize,     \* bound on the number of nodes
          Prods,       \* enabled productions (focused configurations)
          RootTys,     \* types of the generated programs
          MaxScope,    \* bound on the number of variables in scope
          Mutations,   \* how many holes may be retyped (Mutate: programs that are ill-typed for the model)
          Emit

Tys == {"I", "B", "F1", "F2", "R", "P", "O", "L", "A"}
LetTys == {"I", "B", "F1", "F2", "R", "O", "L"}     \* types a let may bind
GenTys == {"I", "B", "F1", "F2", "R", "O"}          \* result types of if / let / error

VARIABLES prefix, pending, rootTy, muts
vars == <<prefix, pending, rootTy, muts>>

Node(g, a, t) == [g |-> g, a |-> a, t |-> t]
Hole(ty, sc) == [ty |-> ty, sc |-> sc]
H == Head(pending)

Init == prefix = <<>> /\ \E ty \in RootTys : (pending = <<Hole(ty, <<>>)>> /\ rootTy = ty /\ muts = 0)

Fill(g, node, holes) ==
  /\ g \in Prods
  /\ pending # <<>>
  /\ prefix' = Append(prefix, node)
  /\ pending' = holes \o Tail(pending)
  /\ Len(prefix') + Len(pending') <= MaxSize
  /\ UNCHANGED <<rootTy, muts>>

Ext(sc, ts) == sc \o ts
Room(n) == Len(H.sc) + n <= MaxScope

\* ---- productions --------------------------------------------------------
PVar   == \E i \in 1..Len(H.sc) : H.sc[i] = H.ty /\ Fill("var", Node("var", i, H.ty), <<>>)
PLit   == H.ty = "I" /\ \E k \in 0..2 : Fill("lit", Node("lit", k, "I"), <<>>)
PBig   == H.ty = "I" /\ Fill("big", Node("big", 0, "I"), <<>>)
PArith == H.ty = "I" /\ \E g \in {"add", "sub", "mul", "div"} : Fill(g, Node(g, 0, "I"), <<Hole("I", H.sc), Hole("I", H.sc)>>)
PIf    == H.ty \in GenTys /\ Fill("if", Node("if", 0, H.ty), <<Hole("B", H.sc), Hole(H.ty, H.sc), Hole(H.ty, H.sc)>>)
PLet   == H.ty \in GenTys /\ Room(1) /\ \E t \in LetTys : Fill("let", Node("let", Len(H.sc) + 1, t), <<Hole(t, H.sc), Hole(H.ty, Ext(H.sc, <<t>>))>>)
PLetU  == H.ty \in GenTys /\ \E t \in {"I"} : Fill("letu", Node("letu", 0, t), <<Hole(t, H.sc), Hole(H.ty, H.sc)>>)   \* let _ = e in body
PApp1  == H.ty = "I" /\ Fill("app1", Node("app1", 0, "I"), <<Hole("F1", H.sc), Hole("I", H.sc)>>)
PApp2  == H.ty = "I" /\ Fill("app2", Node("app2", 0, "I"), <<Hole("F2", H.sc), Hole("I", H.sc), Hole("I", H.sc)>>)
PPapp  == H.ty = "F1" /\ Fill("papp", Node("papp", 0, "F1"), <<Hole("F2", H.sc), Hole("I", H.sc)>>)
PLam1  == H.ty = "F1" /\ Room(1) /\ Fill("lam1", Node("lam1", 0, "F1"), <<Hole("I", Ext(H.sc, <<"I">>))>>)
PLam2  == H.ty = "F2" /\ Room(2) /\ Fill("lam2", Node("lam2", 0, "F2"), <<Hole("I", Ext(H.sc, <<"I", "I">>))>>)
PLam11 == H.ty = "F2" /\ Room(1) /\ Fill("lam11", Node("lam11", 0, "F2"), <<Hole("F1", Ext(H.sc, <<"I">>))>>)
PEff   == H.ty = "I" /\ \E g \in {"eff", "effm"} : Fill(g, Node(g, 0, "I"), <<Hole("I", H.sc)>>)
PErr   == H.ty \in GenTys /\ Fill("err", Node("err", 0, H.ty), <<>>)
PBool  == H.ty = "B" /\ \E g \in {"true", "false"} : Fill(g, Node(g, 0, "B"), <<>>)
PCmp   == H.ty = "B" /\ \E g \in {"lt", "eq"} : Fill(g, Node(g, 0, "B"), <<Hole("I", H.sc), Hole("I", H.sc)>>)
PLogic == H.ty = "B" /\ \E g \in {"and", "or"} : Fill(g, Node(g, 0, "B"), <<Hole("B", H.sc), Hole("B", H.sc)>>)
PMkR   == H.ty = "R" /\ Fill("mkr", Node("mkr", 0, "R"), <<Hole("I", H.sc), Hole("I", H.sc)>>)
\* the same record written { y = e1, x = e2 }: the fields are evaluated in the order they are written, the value is
\* the same record; programs with both spellings have two field-name lists for one record type
\* Its type is { y : Int, x : Int }, which gluon keeps apart from { x : Int, y : Int } (the layout follows the written
\* order), so it is generated only where it is consumed on the spot (hole type "RS"): projected directly, by name,
\* matched by a record pattern, or bound under the annotation { x : Int, y : Int } and then projected (prxa / prya).
PMkRS  == H.ty = "RS" /\ Fill("mkrs", Node("mkrs", 0, "RS"), <<Hole("I", H.sc), Hole("I", H.sc)>>)
PProjA == H.ty = "I" /\ \E g \in {"prxa", "prya"} : Fill(g, Node(g, 0, "I"), <<Hole("RS", H.sc)>>)
\* projection by name through a row-polymorphic function, ((\r -> r.x) e): the field is looked up by its name at run
\* time instead of at the offset the type gives
PProjN == H.ty = "I" /\ \E g \in {"prxn", "pryn"}, rt \in {"R", "RS"} : Fill(g, Node(g, 0, "I"), <<Hole(rt, H.sc)>>)
PUpd   == H.ty = "R" /\ Fill("upd", Node("upd", 0, "R"), <<Hole("I", H.sc), Hole("R", H.sc)>>)
PProj  == H.ty = "I" /\ \E g \in {"prx", "pry"}, rt \in {"R", "RS"} : Fill(g, Node(g, 0, "I"), <<Hole(rt, H.sc)>>)
PMkP   == H.ty = "P" /\ Fill("mkp", Node("mkp", 0, "P"), <<Hole("I", H.sc), Hole("I", H.sc)>>)
PMTup  == H.ty = "I" /\ Room(2) /\ Fill("mtup", Node("mtup", Len(H.sc) + 1, "I"), <<Hole("P", H.sc), Hole("I", Ext(H.sc, <<"I", "I">>))>>)
\* match r with | { x = v1, y = v2 } -> e     (a record pattern whose fields are bound under other names)
PMRec  == H.ty = "I" /\ Room(2) /\ \E rt \in {"R", "RS"} : Fill("mrec", Node("mrec", Len(H.sc) + 1, "I"), <<Hole(rt, H.sc), Hole("I", Ext(H.sc, <<"I", "I">>))>>)
POpt   == H.ty = "O" /\ (Fill("none", Node("none", 0, "O"), <<>>) \/ Fill("some", Node("some", 0, "O"), <<Hole("I", H.sc)>>))
PMOpt  == H.ty = "I" /\ Room(1) /\ Fill("mopt", Node("mopt", 0, "I"), <<Hole("O", H.sc), Hole("I", Ext(H.sc, <<"I">>)), Hole("I", H.sc)>>)
PMPart == H.ty = "I" /\ Room(1) /\ Fill("mpart", Node("mpart", 0, "I"), <<Hole("O", H.sc), Hole("I", Ext(H.sc, <<"I">>))>>)
PMLit  == H.ty = "I" /\ Fill("mlit", Node("mlit", 0, "I"), <<Hole("I", H.sc), Hole("I", H.sc), Hole("I", H.sc), Hole("I", H.sc)>>)
PList  == H.ty = "L" /\ (Fill("nil", Node("nil", 0, "L"), <<>>) \/ Fill("cons", Node("cons", 0, "L"), <<Hole("I", H.sc), Hole("L", H.sc)>>))
PMList == H.ty = "I" /\ Room(2) /\ Fill("mlist", Node("mlist", 0, "I"),
             <<Hole("L", H.sc), Hole("I", Ext(H.sc, <<"I", "I">>)), Hole("I", Ext(H.sc, <<"I">>)), Hole("I", H.sc)>>)
\* | C a (C b _) -> e2 | C a N -> e3 | _ -> e4      (a repeated constructor followed by a catch-all)
PMListD == H.ty = "I" /\ Room(2) /\ Fill("mlistd", Node("mlistd", 0, "I"),
             <<Hole("L", H.sc), Hole("I", Ext(H.sc, <<"I", "I">>)), Hole("I", Ext(H.sc, <<"I">>)), Hole("I", H.sc)>>)
\* | Some 0 -> e2 | Some v -> e3 | _ -> e4
PMOpt3 == H.ty = "I" /\ Room(1) /\ Fill("mopt3", Node("mopt3", 0, "I"),
             <<Hole("O", H.sc), Hole("I", H.sc), Hole("I", Ext(H.sc, <<"I">>)), Hole("I", H.sc)>>)
PArr   == H.ty = "A" /\ (Fill("arr0", Node("arr0", 0, "A"), <<>>) \/ Fill("arr2", Node("arr2", 0, "A"), <<Hole("I", H.sc), Hole("I", H.sc)>>))
PIdx   == H.ty = "I" /\ Fill("idx", Node("idx", 0, "I"), <<Hole("A", H.sc), Hole("I", H.sc)>>)
\* recursive function template: rec let f n = if n < 1 || 3 < n then BASE else (let r = f (n - 1) in STEP)   in BODY
PRecF  == H.ty \in {"I"} /\ Room(2) /\ Fill("recf", Node("recf", 0, H.ty),
             <<Hole("I", Ext(H.sc, <<"F1", "I">>)), Hole("I", Ext(H.sc, <<"F1", "I", "I">>)), Hole(H.ty, Ext(H.sc, <<"F1">>))>>)

\* Mutate: the leftmost hole silently changes its expected type - the program under construction is then ill-typed for the
\* model (a subterm of another type sits where ty was expected).  Whether gluon's checker accepts it is up to the checker;
\* the harness only demands that accepted programs do not go wrong.
PRetype ==
  /\ muts < Mutations /\ pending # <<>> /\ prefix # <<>>
  /\ \E t2 \in (GenTys \cup {"P", "L", "A"}) \ {H.ty} :
        pending' = <<Hole(t2, H.sc)>> \o Tail(pending)
  /\ muts' = muts + 1
  /\ UNCHANGED <<prefix, rootTy>>

Next == pending # <<>> /\
  (PVar \/ PLit \/ PBig \/ PArith \/ PIf \/ PLet \/ PLetU \/ PApp1 \/ PApp2 \/ PPapp \/ PLam1 \/ PLam2 \/ PLam11 \/ PEff \/ PErr
   \/ PBool \/ PCmp \/ PLogic \/ PMkR \/ PMkRS \/ PUpd \/ PProj \/ PProjN \/ PProjA \/ PMkP \/ PMTup \/ PMRec \/ POpt \/ PMOpt \/ PMPart \/ PMLit \/ PList \/ PMList
   \/ PArr \/ PIdx \/ PRecF \/ PMListD \/ PMOpt3 \/ PRetype)

Spec == Init /\ [][Next]_vars

---------------------------------------------------------------------------
(* Symbolic 64-bit integers: [k, d] = k * 2^62 + d, |d| small *)
IV(k, d) == [t |-> "i", k |-> k, d |-> d]
InRange(k, d) == (k \in -1..1) \/ (k = 2 /\ d < 0) \/ (k = -2 /\ d >= 0)
Small(d) == d > -100000 /\ d < 100000

\* result of a checked arithmetic operation: "ok" value, "ovf" (the VM reports Arithmetic overflow), or
\* "unrep": a correct result that the symbolic domain cannot represent (such programs are not emitted)
Arith(g, x, y) ==
  CASE g = "add" -> (IF ~Small(x.d + y.d) THEN [s |-> "unrep"]
                     ELSE IF InRange(x.k + y.k, x.d + y.d) THEN [s |-> "ok", v |-> IV(x.k + y.k, x.d + y.d)] ELSE [s |-> "ovf"])
    [] g = "sub" -> (IF ~Small(x.d - y.d) THEN [s |-> "unrep"]
                     ELSE IF InRange(x.k - y.k, x.d - y.d) THEN [s |-> "ok", v |-> IV(x.k - y.k, x.d - y.d)] ELSE [s |-> "ovf"])
    [] g = "mul" -> (IF x.k # 0 /\ y.k # 0 THEN [s |-> "ovf"]
                     ELSE LET k == x.k * y.d + y.k * x.d
                              d == x.d * y.d
                          IN IF ~Small(d) \/ ~Small(k) THEN [s |-> "unrep"]
                             ELSE IF InRange(k, d) THEN [s |-> "ok", v |-> IV(k, d)] ELSE [s |-> "ovf"])
    [] g = "div" -> (IF y.k = 0 /\ y.d = 0 THEN [s |-> "ovf"]          \* division by zero is reported as Arithmetic overflow
                     ELSE IF x.k # 0 \/ y.k # 0 THEN [s |-> "unrep"]
                     ELSE LET ax == IF x.d < 0 THEN -x.d ELSE x.d
                              ay == IF y.d < 0 THEN -y.d ELSE y.d
                              q  == ax \div ay
                          IN [s |-> "ok", v |-> IV(0, IF (x.d < 0) = (y.d < 0) THEN q ELSE -q)])   \* truncation toward zero
Less(x, y) == x.k < y.k \/ (x.k = y.k /\ x.d < y.d)
Same(x, y) == x.k = y.k /\ x.d = y.d

---------------------------------------------------------------------------
(* Evaluation of a complete prefix-coded program p *)
Arity(g) ==
  CASE g \in {"var", "lit", "big", "err", "true", "false", "none", "nil", "arr0"} -> 0
    [] g \in {"lam1", "lam2", "lam11", "eff", "effm", "prx", "pry", "prxn", "pryn", "prxa", "prya", "some"} -> 1
    [] g \in {"add", "sub", "mul", "div", "let", "letu", "app1", "papp", "lt", "eq", "and", "or", "mkr", "mkrs", "upd", "mkp", "mtup", "mrec",
              "mpart", "cons", "arr2", "idx"} -> 2
    [] g \in {"if", "app2", "mopt", "recf"} -> 3
    [] g \in {"mlit", "mlist", "mlistd", "mopt3"} -> 4

IsMk(g) == g \in {"mkr", "mkrs"}
IsPrx(g) == g \in {"prx", "prxn", "prxa"}
IsPry(g) == g \in {"pry", "pryn", "prya"}
\* root of the subtree which computes field x (y) of the record literal at position c
XChild(p, E, c) == IF p[c].g = "mkr" THEN c + 1 ELSE E[c + 1]
YChild(p, E, c) == IF p[c].g = "mkr" THEN E[c + 1] ELSE c + 1
Val(v, log) == [k |-> "val", v |-> v, log |-> log]
Err(c, log) == [k |-> "err", v |-> c, log |-> log]
Unrep(log)  == [k |-> "unrep", v |-> 0, log |-> log]
BV(b) == [t |-> "b", b |-> b]

RECURSIVE Ev(_, _, _, _, _), Apply(_, _, _, _, _)

\* P: [p, End]; i: node; env: values in scope; log: effect log so far; fuel: recursion guard
Ev(P, i, env, log, fuel) ==
  LET p == P.p
      E == P.e
      n == p[i]
      g == n.g
      c1 == i + 1
      c2 == E[i + 1]
      c3 == E[c2]
      c4 == E[c3]
      Bin(f(_, _, _)) ==      \* evaluate two children left to right, then combine
        LET a == Ev(P, c1, env, log, fuel) IN
        IF a.k # "val" THEN a
        ELSE LET b == Ev(P, c2, env, a.log, fuel) IN
             IF b.k # "val" THEN b ELSE f(a.v, b.v, b.log)
  IN
  IF fuel = 0 THEN Unrep(log) ELSE
  CASE g = "var" -> Val(env[n.a], log)
    [] g = "lit" -> Val(IV(0, n.a), log)
    [] g = "big" -> Val(IV(1, 0), log)
    [] g \in {"add", "sub", "mul", "div"} ->
         LET f(x, y, l) == LET r == Arith(g, x, y) IN
                           IF r.s = "ok" THEN Val(r.v, l) ELSE IF r.s = "ovf" THEN Err("arith", l) ELSE Unrep(l)
         IN Bin(f)
    [] g = "if" ->
         LET c == Ev(P, c1, env, log, fuel) IN
         IF c.k # "val" THEN c
         ELSE IF c.v.b THEN Ev(P, c2, env, c.log, fuel) ELSE Ev(P, c3, env, c.log, fuel)
    [] g = "let" ->
         IF c1 \in P.skip THEN Ev(P, c2, Append(env, IV(0, 0)), log, fuel)     \* the (dead) binding is not evaluated
         ELSE LET a == Ev(P, c1, env, log, fuel) IN
              IF a.k # "val" THEN a ELSE Ev(P, c2, Append(env, a.v), a.log, fuel)
    [] g = "letu" ->
         IF c1 \in P.skip THEN Ev(P, c2, env, log, fuel)
         ELSE LET a == Ev(P, c1, env, log, fuel) IN
              IF a.k # "val" THEN a ELSE Ev(P, c2, env, a.log, fuel)
    [] g = "lam1"  -> Val([t |-> "clo", n |-> 1, body |-> c1, env |-> env, self |-> FALSE], log)
    [] g = "lam2"  -> Val([t |-> "clo", n |-> 2, body |-> c1, env |-> env, self |-> FALSE], log)
    [] g = "lam11" -> Val([t |-> "clo", n |-> 1, body |-> c1, env |-> env, self |-> FALSE], log)
    [] g \in {"app1", "papp"} ->
         LET f == Ev(P, c1, env, log, fuel) IN
         IF f.k # "val" THEN f
         ELSE LET a == Ev(P, c2, env, f.log, fuel) IN
              IF a.k # "val" THEN a ELSE Apply(P, f.v, <<a.v>>, a.log, fuel)
    [] g = "app2" ->
         LET f == Ev(P, c1, env, log, fuel) IN
         IF f.k # "val" THEN f
         ELSE LET a == Ev(P, c2, env, f.log, fuel) IN
              IF a.k # "val" THEN a
              ELSE LET b == Ev(P, c3, env, a.log, fuel) IN
                   IF b.k # "val" THEN b ELSE Apply(P, f.v, <<a.v, b.v>>, b.log, fuel)
    [] g \in {"eff", "effm"} ->
         LET a == Ev(P, c1, env, log, fuel) IN
         IF a.k # "val" THEN a ELSE Val(a.v, Append(a.log, a.v))
    [] g = "err" -> Err("explicit", log)
    [] g = "true" -> Val(BV(TRUE), log)
    [] g = "false" -> Val(BV(FALSE), log)
    [] g = "lt" -> LET f(x, y, l) == Val(BV(Less(x, y)), l) IN Bin(f)
    [] g = "eq" -> LET f(x, y, l) == Val(BV(Same(x, y)), l) IN Bin(f)
    [] g = "and" ->
         LET a == Ev(P, c1, env, log, fuel) IN
         IF a.k # "val" THEN a ELSE IF ~a.v.b THEN Val(BV(FALSE), a.log) ELSE Ev(P, c2, env, a.log, fuel)
    [] g = "or" ->
         LET a == Ev(P, c1, env, log, fuel) IN
         IF a.k # "val" THEN a ELSE IF a.v.b THEN Val(BV(TRUE), a.log) ELSE Ev(P, c2, env, a.log, fuel)
    [] g = "mkr" -> LET f(x, y, l) == Val([t |-> "rec", f |-> <<x, y>>], l) IN Bin(f)
    [] g = "mkrs" -> LET f(y, x, l) == Val([t |-> "rec", f |-> <<x, y>>], l) IN Bin(f)
    [] g = "mkp" -> LET f(x, y, l) == Val([t |-> "tup", f |-> <<x, y>>], l) IN Bin(f)
    [] g = "upd" -> LET f(x, r, l) == Val([t |-> "rec", f |-> <<x, r.f[2]>>], l) IN Bin(f)     \* { x = e, .. base }
    [] IsPrx(g) ->
         IF IsMk(p[c1].g) /\ YChild(p, E, c1) \in P.skip THEN Ev(P, XChild(p, E, c1), env, log, fuel)       \* the other field is dead
         ELSE LET a == Ev(P, c1, env, log, fuel) IN IF a.k # "val" THEN a ELSE Val(a.v.f[1], a.log)
    [] IsPry(g) ->
         IF IsMk(p[c1].g) /\ XChild(p, E, c1) \in P.skip THEN Ev(P, YChild(p, E, c1), env, log, fuel)
         ELSE LET a == Ev(P, c1, env, log, fuel) IN IF a.k # "val" THEN a ELSE Val(a.v.f[2], a.log)
    [] g = "mtup" ->
         IF p[c1].g = "mkp" /\ ((c1 + 1) \in P.skip \/ E[c1 + 1] \in P.skip)
           THEN \* components bound to unused variables are dead
                LET x == IF (c1 + 1) \in P.skip THEN Val(IV(0, 0), log) ELSE Ev(P, c1 + 1, env, log, fuel) IN
                IF x.k # "val" THEN x
                ELSE LET y == IF E[c1 + 1] \in P.skip THEN Val(IV(0, 0), x.log) ELSE Ev(P, E[c1 + 1], env, x.log, fuel) IN
                     IF y.k # "val" THEN y ELSE Ev(P, c2, env \o <<x.v, y.v>>, y.log, fuel)
           ELSE LET a == Ev(P, c1, env, log, fuel) IN
                IF a.k # "val" THEN a ELSE Ev(P, c2, env \o a.v.f, a.log, fuel)
    [] g = "mrec" ->
         IF IsMk(p[c1].g) /\ ((c1 + 1) \in P.skip \/ E[c1 + 1] \in P.skip)
           THEN \* the fields are computed in the order they are written; dead ones are not computed
                LET x == IF (c1 + 1) \in P.skip THEN Val(IV(0, 0), log) ELSE Ev(P, c1 + 1, env, log, fuel) IN
                IF x.k # "val" THEN x
                ELSE LET y == IF E[c1 + 1] \in P.skip THEN Val(IV(0, 0), x.log) ELSE Ev(P, E[c1 + 1], env, x.log, fuel) IN
                     IF y.k # "val" THEN y
                     ELSE Ev(P, c2, env \o (IF p[c1].g = "mkr" THEN <<x.v, y.v>> ELSE <<y.v, x.v>>), y.log, fuel)
           ELSE LET a == Ev(P, c1, env, log, fuel) IN
                IF a.k # "val" THEN a ELSE Ev(P, c2, env \o a.v.f, a.log, fuel)
    [] g = "none" -> Val([t |-> "none"], log)
    [] g = "some" -> LET a == Ev(P, c1, env, log, fuel) IN IF a.k # "val" THEN a ELSE Val([t |-> "some", v |-> a.v], a.log)
    [] g = "mopt" ->
         LET a == Ev(P, c1, env, log, fuel) IN
         IF a.k # "val" THEN a
         ELSE IF a.v.t = "some" THEN Ev(P, c2, Append(env, a.v.v), a.log, fuel) ELSE Ev(P, c3, env, a.log, fuel)
    [] g = "mpart" ->
         LET a == Ev(P, c1, env, log, fuel) IN
         IF a.k # "val" THEN a
         ELSE IF a.v.t = "some" THEN Ev(P, c2, Append(env, a.v.v), a.log, fuel) ELSE Err("nomatch", a.log)
    [] g = "mlit" ->
         LET a == Ev(P, c1, env, log, fuel) IN
         IF a.k # "val" THEN a
         ELSE IF Same(a.v, IV(0, 0)) THEN Ev(P, c2, env, a.log, fuel)
         ELSE IF Same(a.v, IV(0, 1)) THEN Ev(P, c3, env, a.log, fuel) ELSE Ev(P, c4, env, a.log, fuel)
    [] g = "nil" -> Val([t |-> "nil"], log)
    [] g = "cons" -> LET f(x, y, l) == Val([t |-> "cons", h |-> x, tl |-> y], l) IN Bin(f)
    [] g = "mlist" ->     \* | C a (C b _) -> e2 | C a N -> e3 | N -> e4
         LET a == Ev(P, c1, env, log, fuel) IN
         IF a.k # "val" THEN a
         ELSE IF a.v.t = "nil" THEN Ev(P, c4, env, a.log, fuel)
         ELSE IF a.v.tl.t = "nil" THEN Ev(P, c3, Append(env, a.v.h), a.log, fuel)
         ELSE Ev(P, c2, env \o <<a.v.h, a.v.tl.h>>, a.log, fuel)
    [] g = "mlistd" ->    \* | C a (C b _) -> e2 | C a N -> e3 | _ -> e4
         LET a == Ev(P, c1, env, log, fuel) IN
         IF a.k # "val" THEN a
         ELSE IF a.v.t = "nil" THEN Ev(P, c4, env, a.log, fuel)
         ELSE IF a.v.tl.t = "nil" THEN Ev(P, c3, Append(env, a.v.h), a.log, fuel)
         ELSE Ev(P, c2, env \o <<a.v.h, a.v.tl.h>>, a.log, fuel)
    [] g = "mopt3" ->     \* | Some 0 -> e2 | Some v -> e3 | _ -> e4
         LET a == Ev(P, c1, env, log, fuel) IN
         IF a.k # "val" THEN a
         ELSE IF a.v.t = "none" THEN Ev(P, c4, env, a.log, fuel)
         ELSE IF Same(a.v.v, IV(0, 0)) THEN Ev(P, c2, env, a.log, fuel)
         ELSE Ev(P, c3, Append(env, a.v.v), a.log, fuel)
    [] g = "arr0" -> Val([t |-> "arr", e |-> <<>>], log)
    [] g = "arr2" -> LET f(x, y, l) == Val([t |-> "arr", e |-> <<x, y>>], l) IN Bin(f)
    [] g = "idx" ->
         LET f(a, x, l) == IF x.k = 0 /\ x.d >= 0 /\ x.d < Len(a.e) THEN Val(a.e[x.d + 1], l) ELSE Err("index", l) IN Bin(f)
    [] g = "recf" ->
         \* the closure of the recursive function: params (self, n); its body is the template around BASE / STEP
         LET clo == [t |-> "clo", n |-> 1, body |-> i, env |-> env, self |-> TRUE] IN
         Ev(P, c3, Append(env, clo), log, fuel)

\* curried application: under-application builds a partial application, over-application re-applies the result
Apply(P, f, args, log, fuel) ==
  IF fuel = 0 THEN Unrep(log) ELSE
  IF f.t = "pap" THEN Apply(P, f.f, f.args \o args, log, fuel)
  ELSE IF Len(args) < f.n THEN Val([t |-> "pap", f |-> f, args |-> args], log)
  ELSE LET now  == SubSeq(args, 1, f.n)
           rest == SubSeq(args, f.n + 1, Len(args))
           r == IF f.self
                  THEN \* rec template at node f.body: if n < 1 || 3 < n then BASE else (let r = f (n - 1) in STEP)
                       LET nn == now[1]
                           e1 == Append(Append(f.env, f), nn)
                           base == f.body + 1
                           step == P.e[base]
                       IN IF Less(nn, IV(0, 1)) \/ Less(IV(0, 3), nn)
                            THEN Ev(P, base, e1, log, fuel - 1)
                            ELSE LET sub == Arith("sub", nn, IV(0, 1))
                                     rr == Apply(P, f, <<sub.v>>, log, fuel - 1)
                                 IN IF rr.k # "val" THEN rr ELSE Ev(P, step, Append(e1, rr.v), rr.log, fuel - 1)
                  ELSE Ev(P, f.body, f.env \o now, log, fuel - 1)
       IN IF r.k # "val" \/ rest = <<>> THEN r ELSE Apply(P, r.v, rest, r.log, fuel - 1)

Ends(p) ==
  LET Efn[i \in 1..Len(p)] ==
        LET n == Arity(p[i].g) IN
        IF n = 0 THEN i + 1
        ELSE LET a == Efn[i + 1] IN
             IF n = 1 THEN a
             ELSE LET b == Efn[a] IN
                  IF n = 2 THEN b
                  ELSE LET c == Efn[b] IN IF n = 3 THEN c ELSE Efn[c]
  IN Efn

RunSkip(p, E, skip) == Ev([p |-> p, e |-> E, skip |-> skip], 1, <<>>, <<>>, 12)
Run(p) == RunSkip(p, Ends(p), {})

(* OptModel: the optimisation the compiler may perform on unused bindings.  A binding is dead when it is   *)
(* `let _ = e` or its variable is never used.  Dropping a dead binding is PERMITTED only when its          *)
(* right-hand side contains nothing but built-in arithmetic besides pure construction.  The outcomes of    *)
(* dropping every subset of the dead bindings are emitted with the program so that the replay can tell      *)
(* "explained by dropping bindings {..}" from an unexplained disagreement.                                 *)
\* is variable idx used in from..to-1 outside of the subtrees rooted in D ?
UsedOutside(p, E, from, to, idx, D) ==
  \E j \in from..(to - 1) : p[j].g = "var" /\ p[j].a = idx /\ ~\E r \in D : j >= r /\ j < E[r]
\* roots of the subtrees whose value is never used, given that the subtrees rooted in D are dropped
DeadStep(p, E, D) ==
  {i + 1 : i \in {x \in 1..Len(p) : \/ p[x].g = "letu"
                                     \/ (p[x].g = "let" /\ ~UsedOutside(p, E, E[x + 1], E[x], p[x].a, D))}}
  \cup {YChild(p, E, i + 1) : i \in {x \in 1..Len(p) : IsPrx(p[x].g) /\ IsMk(p[x + 1].g)}}
  \cup {XChild(p, E, i + 1) : i \in {x \in 1..Len(p) : IsPry(p[x].g) /\ IsMk(p[x + 1].g)}}
  \cup {i + 2 : i \in {x \in 1..Len(p) : p[x].g = "mtup" /\ p[x + 1].g = "mkp" /\ ~UsedOutside(p, E, E[x + 1], E[x], p[x].a, D)}}
  \cup {E[i + 2] : i \in {x \in 1..Len(p) : p[x].g = "mtup" /\ p[x + 1].g = "mkp" /\ ~UsedOutside(p, E, E[x + 1], E[x], p[x].a + 1, D)}}
  \cup {XChild(p, E, i + 1) : i \in {x \in 1..Len(p) : p[x].g = "mrec" /\ IsMk(p[x + 1].g) /\ ~UsedOutside(p, E, E[x + 1], E[x], p[x].a, D)}}
  \cup {YChild(p, E, i + 1) : i \in {x \in 1..Len(p) : p[x].g = "mrec" /\ IsMk(p[x + 1].g) /\ ~UsedOutside(p, E, E[x + 1], E[x], p[x].a + 1, D)}}
\* transitively dead (a variable used only by dead bindings is dead): three rounds suffice for the generated sizes
DeadLets(p, E) == DeadStep(p, E, DeadStep(p, E, DeadStep(p, E, {})))
\* a set of dead roots may be dropped together only if what it drops is dead once it is dropped
Closed(p, E, m) == m \subseteq DeadStep(p, E, m)
Impure == {"eff", "effm", "err", "idx", "mpart", "app1", "app2", "papp", "add", "sub", "mul", "div", "recf"}
\* calls whose callee is a plain variable are told apart (the real optimiser treats them differently)
KindAt(p, j) ==
  IF p[j].g \in {"app1", "app2", "papp"} /\ p[j + 1].g = "var"
    THEN (IF p[j].g = "app1" THEN "app1v" ELSE IF p[j].g = "app2" THEN "app2v" ELSE "pappv")
    ELSE p[j].g
\* only what the right-hand side does when it is evaluated counts: nodes inside a lambda body or inside the body of a
\* recursive function definition run later (if at all), when the closure is called
UnderLambda(p, E, r, j) ==
  \E i \in r..(j - 1) : \/ (p[i].g \in {"lam1", "lam2", "lam11"} /\ j < E[i])
                          \/ (p[i].g = "recf" /\ j < E[E[i + 1]])
RhsKinds(p, E, r) == {KindAt(p, j) : j \in {x \in r..(E[r] - 1) : p[x].g \in Impure /\ ~UnderLambda(p, E, r, x)}}
Masks0(D) == IF Cardinality(D) <= 3 THEN (SUBSET D) \ {{}} ELSE {D} \cup {{x} : x \in D}

\* first-order rendering of a value (closures and partial applications are opaque)
RECURSIVE Show(_)
Show(v) ==
  CASE v.t = "i" -> <<"i", v.k, v.d>>
    [] v.t = "b" -> <<"b", IF v.b THEN 1 ELSE 0>>
    [] v.t \in {"clo", "pap"} -> <<"fn">>
    [] v.t \in {"rec", "tup"} -> <<"data", 0, <<Show(v.f[1]), Show(v.f[2])>> >>
    [] v.t = "none" -> <<"data", 0, <<>> >>
    [] v.t = "some" -> <<"data", 1, <<Show(v.v)>> >>
    [] v.t = "nil" -> <<"data", 0, <<>> >>
    [] v.t = "cons" -> <<"data", 1, <<Show(v.h), Show(v.tl)>> >>
    [] v.t = "arr" -> <<"arr", [j \in DOMAIN v.e |-> Show(v.e[j])]>>

Res(r) == [k |-> r.k, v |-> IF r.k = "val" THEN Show(r.v) ELSE <<r.v>>, log |-> [j \in DOMAIN r.log |-> <<r.log[j].k, r.log[j].d>>]]
Outcome(p, r) ==
  LET E == Ends(p)
      D == DeadLets(p, E)
      MS == {m \in Masks0(D) : Closed(p, E, m)}
      alts == {[d |-> UNION {RhsKinds(p, E, i) : i \in m}, o |-> Res(RunSkip(p, E, m))] : m \in MS}
  IN [p |-> [j \in DOMAIN p |-> <<p[j].g, p[j].a, p[j].t>>],
      ty |-> rootTy,
      k |-> r.k,
      v |-> IF r.k = "val" THEN Show(r.v) ELSE <<r.v>>,
      log |-> [j \in DOMAIN r.log |-> <<r.log[j].k, r.log[j].d>>],
      alts |-> {a \in alts : a.o.k # "unrep"},
      nalts |-> Cardinality(MS)]

Done == pending = <<>>

\* In-model properties, evaluated on every generated program:
\*   Progress     - a well-typed program never gets stuck: Ev is total on the generated set (TLC reports an
\*                  evaluation error for e.g. applying a non-function or projecting a non-record)
\*   ValueHasType - the outcome has the shape of the program's type
TypeOfShow(s) == IF s[1] = "i" THEN "I" ELSE IF s[1] = "b" THEN "B" ELSE IF s[1] = "fn" THEN "F" ELSE IF s[1] = "arr" THEN "A" ELSE "D"
HasType(r) ==
  r.k = "val" =>
    LET s == TypeOfShow(Show(r.v)) IN
      CASE rootTy = "I" -> s = "I" [] rootTy = "B" -> s = "B" [] rootTy \in {"F1", "F2"} -> s = "F"
        [] rootTy = "A" -> s = "A" [] OTHER -> s = "D"

\* one evaluation per program: type soundness of the model + emission of the behaviour for the replay
Sound ==
  (Done /\ muts = 0) => LET r == Run(prefix) IN
          /\ HasType(r)
          /\ (Emit /\ r.k # "unrep") => PrintT(<<"PROG", ToJson(Outcome(prefix, r))>>)
\* mutants are emitted without an outcome (the model has no opinion on ill-typed programs)
EmitMutant ==
  (Emit /\ Done /\ muts > 0) => PrintT(<<"PROG", ToJson([p |-> [j \in DOMAIN prefix |-> <<prefix[j].g, prefix[j].a, prefix[j].t>>], ty |-> rootTy, k |-> "mutant"])>>)
=============================================================================

SPECIFICATION Spec
CONSTANTS
  Procs = {"A", "B", "C"}
  Mods = {1, 2, 3}
  Deps <- MCDeps
  Wants <- MCWants
INVARIANTS AtMostOnce
PROPERTIES EveryoneServed

SPECIFICATION Spec
CONSTANTS
  MaxLimit = 40
  MaxSize = 8
  Header = 4
  AsCoded = TRUE
INVARIANTS OvershootBound
CHECK_DEADLOCK FALSE

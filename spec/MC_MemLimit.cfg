SPECIFICATION Spec
CONSTANTS
  MaxLimit = 40
  MaxSize = 8
  Header = 4
  AsCoded = FALSE
INVARIANTS WithinLimit
CHECK_DEADLOCK FALSE

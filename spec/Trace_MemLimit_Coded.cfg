SPECIFICATION Spec
CONSTANTS
  Strict = FALSE
POSTCONDITION Accepted
CHECK_DEADLOCK FALSE

SPECIFICATION Spec
CONSTANTS
  MaxSize = 4
  MaxScope = 3
  StartScope = 0
  Emit = TRUE
  Prods = {"var","int","str","tt","none","lam","let","app","tup","recxy","arr2","lt","recx","px","py","some","if","mopt"}
INVARIANTS Emitted
CHECK_DEADLOCK FALSE

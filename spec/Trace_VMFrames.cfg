SPECIFICATION TSpec
CONSTANTS
  MaxDepth = 0
  Limit = 0
  MaxSS = {}
POSTCONDITION Accepted
CHECK_DEADLOCK FALSE

SPECIFICATION Spec
CONSTANTS
  NMod = 2
  MaxSteps = 4
  Emit = FALSE
  SkipDep = 0
INVARIANTS NeverStale CycleReported
CHECK_DEADLOCK FALSE

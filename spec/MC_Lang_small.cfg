SPECIFICATION Spec
CONSTANTS
  MaxSize = 4
  MaxScope = 3
  RootTys = {"I"}
  Emit = TRUE
  Mutations = 0
  Prods = {"var","lit","big","add","sub","mul","div","if","let","letu","app1","app2","papp","lam1","lam2","lam11","eff","effm","err","true","false","lt","eq","and","or","mkr","upd","prx","pry","mkp","mtup","none","some","mopt","mpart","mlit","nil","cons","mlist","arr0","arr2","idx","recf"}
INVARIANTS Sound
CHECK_DEADLOCK FALSE

SPECIFICATION Spec
CONSTANTS
  Table <- MCTable
  NBoundary <- MCBoundary
INVARIANTS WellFormed EmitCalls
CHECK_DEADLOCK FALSE

SPECIFICATION Spec
CONSTANTS
  MaxSize = 7
  MaxScope = 3
  RootTys = {"I"}
  Emit = TRUE
  Mutations = 0
  Prods = {"add", "and", "big", "div", "eff", "effm", "eq", "err", "false", "if", "let", "letu", "lit", "lt", "mul", "or", "sub", "true", "var"}
INVARIANTS Sound EmitMutant
CHECK_DEADLOCK FALSE

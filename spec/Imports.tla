------------------------------ MODULE Imports ------------------------------
(* C16, scheduling dimension.  A module with N `import!`s is expanded by N tasks handed to the VM's spawner; the     *)
(* executor decides in which order they finish.  Some of the imported modules are broken.  The diagnostics reported  *)
(* for the importing module must be a function of the sources alone: the errors of the broken imports in source      *)
(* order, whatever the completion order.  Mode = "sorted" is the contract (vm/src/macros.rs indexes the futures and   *)
(* sorts the collected errors); Mode = "arrival" reports them as they arrive and is rejected by TLC.                   *)
(* Every terminal state emits the completion order as a schedule; the harness drives a real VM with an executor that  *)
(* polls the tasks in that priority order and the reported text must be the same for all of them.                     *)
EXTENDS Integers, Sequences, FiniteSets, TLC, Json

CONSTANTS N, Mode, Emit

VARIABLES broken, done, arrived, reported, fin
vars == <<broken, done, arrived, reported, fin>>

Init == /\ broken \in SUBSET (1..N) /\ done = {} /\ arrived = <<>> /\ reported = <<>> /\ fin = FALSE

Finish(i) == /\ ~fin /\ i \notin done
             /\ done' = done \cup {i} /\ arrived' = Append(arrived, i)
             /\ UNCHANGED <<broken, reported, fin>>

RECURSIVE Sorted(_, _)
Sorted(S, k) == IF k > N THEN <<>> ELSE (IF k \in S THEN <<k>> ELSE <<>>) \o Sorted(S, k + 1)
Expected == Sorted(broken, 1)

Report == /\ ~fin /\ done = 1..N
          /\ reported' = IF Mode = "sorted" THEN Expected ELSE SelectSeq(arrived, LAMBDA i : i \in broken)
          /\ fin' = TRUE
          /\ UNCHANGED <<broken, done, arrived>>

Next == (\E i \in 1..N : Finish(i)) \/ Report
Spec == Init /\ [][Next]_vars

Deterministic == fin => reported = Expected
EmitSchedule == (Emit /\ fin) => PrintT(<<"SCHED", ToJson([broken |-> Sorted(broken, 1), order |-> arrived, n |-> N])>>)
=============================================================================

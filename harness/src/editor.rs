//! C20: editor queries (type at position, completion, signature help, metadata, symbols) at every byte offset
use std::panic::{catch_unwind, AssertUnwindSafe};

use gluon::base::fnv::FnvMap;
use gluon::{RootedThread, ThreadExt};
use gluon_completion as completion;
use serde_json::{json, Value};

use crate::common::*;

fn offsets(src: &str, step: usize) -> Vec<usize> {
    (0..=src.len()).filter(|i| src.is_char_boundary(*i) && (step <= 1 || i % step == 0 || *i == src.len())).collect()
}

pub fn query(vm: &RootedThread, src: &str, step: usize) -> Value {
    let mut panics: Vec<Value> = Vec::new();
    let mut finds: Vec<Value> = Vec::new();
    let mut suggests: Vec<Value> = Vec::new();
    let mut queries = 0usize;
    let typed = catch_unwind(AssertUnwindSafe(|| vm.typecheck_str("prog", src, None)));
    let record_panic = |panics: &mut Vec<Value>, what: &str, pos: usize, p: Box<dyn std::any::Any + Send>| {
        let loc = LAST_PANIC_LOC.with(|c| c.borrow().clone());
        if panics.len() < 5 {
            panics.push(json!({"query": what, "pos": pos, "at": loc, "msg": panic_message(&p)}));
        }
    };
    match typed {
        Ok(Ok((expr, _))) => {
            let file_map = vm.get_database().get_filemap("prog").expect("file map");
            let span = file_map.span();
            let env = vm.get_env();
            let meta: FnvMap<gluon::base::symbol::Symbol, std::sync::Arc<gluon::base::metadata::Metadata>> = FnvMap::default();
            let e = expr.expr();
            match catch_unwind(AssertUnwindSafe(|| completion::all_symbols(span, e).len())) {
                Ok(_) => (),
                Err(p) => record_panic(&mut panics, "all_symbols", 0, p),
            }
            for off in offsets(src, step) {
                let pos = span.start() + gluon::base::pos::ByteOffset::from(off as i64);
                queries += 4;
                match catch_unwind(AssertUnwindSafe(|| completion::find(&env, span, e, pos))) {
                    Ok(Ok(either)) => {
                        let t = match either {
                            gluon::either::Either::Left(k) => format!("kind:{}", k),
                            gluon::either::Either::Right(t) => t.to_string(),
                        };
                        finds.push(json!([off, t]));
                    }
                    Ok(Err(())) => (),
                    Err(p) => record_panic(&mut panics, "find", off, p),
                }
                match catch_unwind(AssertUnwindSafe(|| completion::suggest(&env, span, e, pos))) {
                    Ok(s) => {
                        let names: Vec<String> = s.into_iter().map(|x| x.name).collect();
                        suggests.push(json!([off, names]));
                    }
                    Err(p) => record_panic(&mut panics, "suggest", off, p),
                }
                if let Err(p) = catch_unwind(AssertUnwindSafe(|| completion::signature_help(&env, span, e, pos).is_some())) {
                    record_panic(&mut panics, "signature_help", off, p);
                }
                if let Err(p) = catch_unwind(AssertUnwindSafe(|| completion::get_metadata(&meta, span, e, pos).is_some())) {
                    record_panic(&mut panics, "get_metadata", off, p);
                }
            }
            json!({"typed": true, "queries": queries, "finds": finds, "suggests": suggests, "panics": panics})
        }
        // inputs the checker rejects are not queried (the salvaged tree is not reachable through the public API used here)
        Ok(Err(_)) => json!({"typed": false, "queries": 0, "finds": [], "suggests": [], "panics": panics}),
        Err(p) => {
            record_panic(&mut panics, "typecheck", 0, p);
            json!({"typed": false, "queries": 0, "finds": [], "suggests": [], "panics": panics})
        }
    }
}

//! C09: runs the front end (parse, macro expansion, rename, typecheck) on arbitrary text and reports the errors
//! with their spans (relative to the input) and whether they can be rendered
use gluon::base::error::InFile;
use gluon::base::pos::BytePos;
use gluon::{Error, RootedThread, ThreadExt};
use serde_json::{json, Value};

fn spans<E: std::fmt::Display>(f: &InFile<E>, out: &mut Vec<Value>) {
    for e in f.errors().iter() {
        let (s, t) = (e.span.start(), e.span.end());
        match f.source().get(s) {
            Some(file) => {
                let base = file.span().start();
                let len = file.source().len();
                out.push(json!({"file": file.name().to_string(), "start": (s - base).to_usize() as i64, "end": (t.to_usize() as i64 - base.to_usize() as i64), "len": len}));
            }
            None => out.push(json!({"file": null, "start": s.to_usize(), "end": t.to_usize(), "len": -1})),
        }
    }
    let _ = BytePos::from(0u32);
}

fn collect(e: &Error, out: &mut Vec<Value>, kinds: &mut Vec<String>) {
    match e {
        Error::Parse(f) => { kinds.push("parse".into()); spans(f, out) }
        Error::Typecheck(f) => { kinds.push("typecheck".into()); spans(f, out) }
        Error::Macro(f) => { kinds.push("macro".into()); spans(f, out) }
        Error::Multiple(es) => {
            for x in es.iter() {
                collect(x, out, kinds);
            }
        }
        Error::IO(_) => kinds.push("io".into()),
        Error::VM(_) => kinds.push("vm".into()),
        Error::Other(_) => kinds.push("other".into()),
    }
}

pub fn check(vm: &RootedThread, src: &str) -> Value {
    match vm.typecheck_str("prog", src, None) {
        Ok((_, typ)) => json!({"result": "ok", "type": typ.to_string(), "errors": [], "kinds": [], "rendered": true}),
        Err(e) => {
            let mut out = Vec::new();
            let mut kinds = Vec::new();
            collect(&e, &mut out, &mut kinds);
            let rendered = match e.emit_string() {
                Ok(s) => !s.is_empty(),
                Err(_) => false,
            };
            json!({"result": "err", "errors": out, "kinds": kinds, "rendered": rendered})
        }
    }
}

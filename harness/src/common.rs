//! Shared helpers of the harness
use gluon::vm::api::{Hole, OpaqueValue, ValueRef};
use gluon::vm::thread::RootedThread;
use gluon::vm::Variants;
use gluon::{Thread, ThreadExt};

pub struct Rng(pub u64);
impl Rng {
    pub fn new(seed: u64) -> Rng {
        Rng(seed.wrapping_mul(0x9E3779B97F4A7C15) ^ 0xD1B54A32D192ED03)
    }
    pub fn next(&mut self) -> u64 {
        let mut x = self.0;
        x ^= x << 13;
        x ^= x >> 7;
        x ^= x << 17;
        self.0 = x;
        x.wrapping_mul(0x2545F4914F6CDD1D)
    }
    pub fn below(&mut self, n: usize) -> usize {
        (self.next() % (n.max(1) as u64)) as usize
    }
    pub fn chance(&mut self, num: u64, den: u64) -> bool {
        self.next() % den < num
    }
}

/// Canonical rendering of a gluon value (positional, no addresses)
pub fn render(v: Variants) -> String {
    let mut s = String::new();
    render_into(v.as_ref(), &mut s, 0);
    s
}

pub fn render_ref(v: ValueRef) -> String {
    let mut s = String::new();
    render_into(v, &mut s, 0);
    s
}

fn render_into(v: ValueRef, out: &mut String, depth: usize) {
    use std::fmt::Write;
    if depth > 200 {
        out.push_str("<deep>");
        return;
    }
    match v {
        ValueRef::Byte(b) => write!(out, "{}b", b).unwrap(),
        ValueRef::Int(i) => write!(out, "{}", i).unwrap(),
        ValueRef::Float(f) => write!(out, "f{:016x}", f.to_bits()).unwrap(),
        ValueRef::String(s) => write!(out, "{:?}", s).unwrap(),
        ValueRef::Data(d) => {
            write!(out, "{{{}", d.tag()).unwrap();
            for i in 0..d.len() {
                out.push(if i == 0 { '|' } else { ',' });
                render_into(d.get(i).unwrap(), out, depth + 1);
            }
            out.push('}');
        }
        ValueRef::Array(a) => {
            out.push('[');
            for (i, x) in a.iter().enumerate() {
                if i > 0 {
                    out.push(',');
                }
                render_into(x.as_ref(), out, depth + 1);
            }
            out.push(']');
        }
        ValueRef::Userdata(_) => out.push_str("<ud>"),
        ValueRef::Thread(_) => out.push_str("<thread>"),
        ValueRef::Closure(_) => out.push_str("<fn>"),
        ValueRef::Internal => out.push_str("<fn>"),
    }
}

pub type AnyValue = OpaqueValue<RootedThread, Hole>;

pub struct Settings {
    pub prelude: bool,
    pub optimize: bool,
    pub debug: bool,
    pub run_io: bool,
    pub full_metadata: bool,
}

impl Default for Settings {
    fn default() -> Self {
        Settings { prelude: true, optimize: true, debug: true, run_io: false, full_metadata: false }
    }
}

pub fn apply_settings(vm: &Thread, s: &Settings) {
    let mut db = vm.get_database_mut();
    db.set_implicit_prelude(s.prelude);
    db.set_optimize(s.optimize);
    db.set_emit_debug_info(s.debug);
    db.set_full_metadata(s.full_metadata);
    db.run_io(s.run_io);
}

pub fn new_vm(s: &Settings) -> RootedThread {
    let vm = gluon::new_vm();
    apply_settings(&vm, s);
    vm
}

/// Classifies an error text into the failure classes of the model
pub fn error_class(msg: &str) -> &'static str {
    if msg.starts_with("boom") {
        "explicit"
    } else if msg.contains("Arithmetic overflow") {
        "arith"
    } else if msg.contains("Unmatched pattern") {
        "nomatch"
    } else if msg.starts_with("Index ") && msg.contains("is out of range") {
        "index"
    } else if msg.contains("StackOverflow") || msg.contains("stack has overflowed") || msg.contains("The stack") {
        "stackoverflow"
    } else if msg.contains("out of memory") || msg.contains("Out of memory") || msg.contains("OutOfMemory") {
        "oom"
    } else if msg.contains("Interrupted") || msg.contains("interrupted") {
        "interrupted"
    } else {
        "other"
    }
}

pub fn run_any(vm: &Thread, name: &str, src: &str) -> Result<(String, String), String> {
    match vm.run_expr::<AnyValue>(name, src) {
        Ok((v, t)) => Ok((render(v.get_variant()), t.to_string())),
        Err(e) => Err(e.to_string()),
    }
}

pub fn json_str(s: &str) -> String {
    serde_json::to_string(s).unwrap()
}

pub fn panic_message(p: &Box<dyn std::any::Any + Send>) -> String {
    p.downcast_ref::<String>()
        .cloned()
        .or_else(|| p.downcast_ref::<&str>().map(|s| s.to_string()))
        .unwrap_or_default()
}

/// Worker protocol: one JSON job per stdin line; prints `{"start": id}` before and the result line
/// after each job (flushed), so that the driver can tell which job hangs or kills the process.
pub fn serve<F: FnMut(&serde_json::Value) -> serde_json::Value>(mut f: F) {
    use std::io::{BufRead, Write};
    let stdin = std::io::stdin();
    let stdout = std::io::stdout();
    // a worker retires after GVH_MAX_JOBS jobs (the driver starts another one for the rest): VMs that cannot be dropped
    // (see the harness notes on leaked VMs) must not add up over thousands of jobs
    let max_jobs: usize = std::env::var("GVH_MAX_JOBS").ok().and_then(|v| v.parse().ok()).unwrap_or(usize::MAX);
    let mut handled = 0usize;
    for line in stdin.lock().lines() {
        if handled >= max_jobs {
            break;
        }
        let line = match line {
            Ok(l) => l,
            Err(_) => break,
        };
        if !line.starts_with('{') {
            continue;
        }
        let job: serde_json::Value = match serde_json::from_str(&line) {
            Ok(j) => j,
            Err(_) => continue,
        };
        {
            let mut o = stdout.lock();
            writeln!(o, "{}", serde_json::json!({"start": job["id"]})).unwrap();
            o.flush().unwrap();
        }
        let r = f(&job);
        let mut o = stdout.lock();
        writeln!(o, "{}", r).unwrap();
        o.flush().unwrap();
        handled += 1;
    }
}

thread_local! {
    pub static LAST_PANIC_LOC: std::cell::RefCell<String> = std::cell::RefCell::new(String::new());
}

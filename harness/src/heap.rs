//! C05 / C13 replay: walks of Heap.tla are executed on real VMs; after every step the real object graph
//! reachable from every root is compared with the model state (structure, sharing, owning heap, freed flags).
use std::collections::{HashMap, HashSet};
use std::panic::{catch_unwind, AssertUnwindSafe};

use gluon::vm::api::generic::A;
use gluon::vm::api::{Getable, Hole, OpaqueValue, ValueRef, IO};
use gluon::vm::channel::Receiver;
use gluon::vm::reference::Reference;
use gluon::vm::thread::RootedThread;
use gluon::vm::{verif, Variants};
use gluon::ThreadExt;
use serde_json::{json, Value};

use crate::common::*;

type H = OpaqueValue<RootedThread, Hole>;
type F1 = gluon::vm::api::Function<RootedThread, fn(H) -> H>;
type F2 = gluon::vm::api::Function<RootedThread, fn(H, H) -> H>;
type F1Io = gluon::vm::api::Function<RootedThread, fn(H) -> IO<H>>;
type F2Io = gluon::vm::api::Function<RootedThread, fn(H, H) -> IO<H>>;

const DRIVER: &str = r#"
let { ref, load, (<-) } = import! std.reference
let { channel, send, recv } = import! std.channel
let { wrap } = import! std.applicative
let { flat_map } = import! std.monad
let io @ { ? } = import! std.io
let { Result } = import! std.result
let unwrap_recv r =
    match r with
    | Ok v -> v
    | Err _ -> error "empty"
let send_code r =
    match r with
    | Ok _ -> 1
    | Err _ -> 0
{
    mk2 = \a b -> { l = a, r = b },
    mkref = \a -> ref a,
    setref = \r v -> r <- v,
    getref = \r -> load r,
    mkchan = \u -> channel u,
    sendc = \c v ->
        do r = send c.sender v
        wrap (send_code r),
    recvc = \c ->
        do r = recv c.receiver
        wrap (unwrap_recv r),
}
"#;

// field order matters: the handles must be dropped before the last `RootedThread` of the VM
struct Vm {
    funcs: H,
    zero: H,
    root: RootedThread,
}

struct World {
    // drop order: handles, then the per-VM handles, then the threads
    handles: HashMap<(u64, u64), H>,
    vms: HashMap<u64, Vm>,
    threads: HashMap<u64, RootedThread>,
    vm_of: HashMap<u64, u64>,
    heap_of: HashMap<u64, usize>, // model heap (thread id, or MaxThr + vm) -> real heap id
    addr_of: HashMap<u64, usize>, // model object -> real address (objects are never moved, ids never reused)
    max_thr: u64,
}

fn new_vm_ctx() -> Vm {
    let root = new_vm(&Settings { run_io: true, ..Settings::default() });
    root.load_script("heapdrv", DRIVER).unwrap_or_else(|e| panic!("driver: {}", e));
    let funcs: H = root.get_global("heapdrv").expect("heapdrv");
    let zero: H = root.run_expr::<H>("zero", "0").unwrap().0;
    Vm { root, funcs, zero }
}

fn func_variant<'a>(vm: &'a Vm, name: &str) -> Variants<'a> {
    match vm.funcs.get_variant().as_ref() {
        ValueRef::Data(d) => d.lookup_field(&vm.root, name).expect("driver field"),
        _ => panic!("driver is not a record"),
    }
}

impl World {
    fn new(max_thr: u64) -> World {
        let vm = new_vm_ctx();
        let mut w = World {
            vms: HashMap::new(),
            threads: HashMap::new(),
            vm_of: HashMap::new(),
            heap_of: HashMap::new(),
            handles: HashMap::new(),
            addr_of: HashMap::new(),
            max_thr,
        };
        w.heap_of.insert(1, vm.root.verif_heap_id());
        w.heap_of.insert(max_thr + 1, vm.root.verif_global_heap_id());
        w.threads.insert(1, vm.root.clone());
        w.vm_of.insert(1, 1);
        w.vms.insert(1, vm);
        w
    }

    fn arg(&self, t: u64, v: u64) -> H {
        if v == 0 {
            self.vms[&self.vm_of[&t]].zero.clone()
        } else {
            self.handles.get(&(t, v)).unwrap_or_else(|| panic!("harness: no handle for {} in thread {}", v, t)).clone()
        }
    }

    fn call2(&self, t: u64, name: &str, a: H, b: H, io: bool) -> Result<H, String> {
        let vm = &self.vms[&self.vm_of[&t]];
        let th = &self.threads[&t];
        let fv = func_variant(vm, name);
        if io {
            let mut f = F2Io::from_value(th, fv);
            match f.call(a, b) {
                Ok(IO::Value(v)) => Ok(v),
                Ok(IO::Exception(e)) => Err(e),
                Err(e) => Err(e.to_string()),
            }
        } else {
            let mut f = F2::from_value(th, fv);
            f.call(a, b).map_err(|e| e.to_string())
        }
    }

    fn call1(&self, t: u64, name: &str, a: H, io: bool) -> Result<H, String> {
        let vm = &self.vms[&self.vm_of[&t]];
        let th = &self.threads[&t];
        let fv = func_variant(vm, name);
        if io {
            let mut f = F1Io::from_value(th, fv);
            match f.call(a) {
                Ok(IO::Value(v)) => Ok(v),
                Ok(IO::Exception(e)) => Err(e),
                Err(e) => Err(e.to_string()),
            }
        } else {
            let mut f = F1::from_value(th, fv);
            f.call(a).map_err(|e| e.to_string())
        }
    }

    /// Executes one model step on the real VM. Err = the real VM reported an error value.
    fn step(&mut self, s: &Value, index: usize) -> Result<(), String> {
        let op = s["op"].as_str().unwrap();
        let t = s["t"].as_u64().unwrap_or(0);
        let a = s["a"].as_i64().unwrap_or(0);
        let b = s["b"].as_i64().unwrap_or(0);
        let res = s["res"].as_i64().unwrap_or(0);
        match op {
            "alloc" => {
                let r = self.call2(t, "mk2", self.arg(t, a as u64), self.arg(t, b as u64), false)?;
                self.handles.insert((t, res as u64), r);
            }
            "unroot" => {
                self.handles.remove(&(t, a as u64));
            }
            "push" => {
                let h = self.arg(t, a as u64);
                self.threads[&t].push(h).map_err(|e| e.to_string())?;
            }
            "pop" => {
                let th = &self.threads[&t];
                let mut ctx = th.current_context();
                let _ = ctx.pop();
            }
            "roottop" => {
                let th = self.threads[&t].clone();
                let v: H = {
                    let mut ctx = th.current_context();
                    let p = ctx.pop();
                    <H as Getable>::from_value(&th, (*p).clone())
                };
                th.push(v.clone()).map_err(|e| e.to_string())?;
                self.handles.insert((t, res as u64), v);
            }
            "spawn" => {
                let child = self.threads[&t].new_thread().map_err(|e| e.to_string())?;
                let id = res as u64;
                self.heap_of.insert(id, child.verif_heap_id());
                self.vm_of.insert(id, self.vm_of[&t]);
                self.threads.insert(id, child);
            }
            "newvm" => {
                let vm = new_vm_ctx();
                let id = res as u64;
                self.heap_of.insert(id, vm.root.verif_heap_id());
                self.heap_of.insert(self.max_thr + 2, vm.root.verif_global_heap_id());
                self.threads.insert(id, vm.root.clone());
                self.vm_of.insert(id, 2);
                self.vms.insert(2, vm);
            }
            "dropvm" => {
                let ts: Vec<u64> = self.vm_of.iter().filter(|(_, v)| **v == 2).map(|(t, _)| *t).collect();
                self.handles.retain(|(t, _), _| !ts.contains(t));
                // handles first, then children, the root thread last
                self.vms.remove(&2);
                let mut ts2 = ts.clone();
                ts2.sort();
                for t in ts2.iter().rev() {
                    self.threads.remove(t);
                }
                for t in ts {
                    self.vm_of.remove(&t);
                }
            }
            "cellnew" => {
                let r = self.call1(t, "mkref", self.arg(t, a as u64), true)?;
                self.handles.insert((t, res as u64), r);
            }
            "cellset" => {
                let r = self.call2(t, "setref", self.arg(t, a as u64), self.arg(t, b as u64), true);
                if res < 0 {
                    return match r {
                        Err(_) => Ok(()),
                        Ok(_) => Err("expected-error: storing a channel end into a cell of another heap should fail".into()),
                    };
                }
                r?;
            }
            "cellget" => {
                let r = self.call1(t, "getref", self.arg(t, a as u64), true)?;
                self.handles.insert((t, res as u64), r);
            }
            "channew" => {
                let r = self.call1(t, "mkchan", self.arg(t, 0), true)?;
                self.handles.insert((t, res as u64), r);
            }
            "send" => {
                let r = self.call2(t, "sendc", self.arg(t, a as u64), self.arg(t, b as u64), true)?;
                let code = match r.get_variant().as_ref() {
                    ValueRef::Int(i) => i,
                    _ => -7,
                };
                let expect = if res < 0 { 0 } else { 1 };
                if code != expect {
                    return Err(format!("send-result: send answered {} but the model expects {}", code, expect));
                }
            }
            "recv" => {
                let r = self.call1(t, "recvc", self.arg(t, a as u64), true)?;
                if res > 0 {
                    self.handles.insert((t, res as u64), r);
                }
            }
            "move" => {
                // s = t, d = a, v = b
                let d = a as u64;
                let h = self.arg(t, b as u64);
                let dst = self.threads[&d].clone();
                let moved: Result<H, String> = if index % 2 == 0 {
                    h.into_inner().re_root(dst.clone()).map(H::from_value).map_err(|e| e.to_string())
                } else {
                    match dst.push(h) {
                        Ok(()) => {
                            let mut ctx = dst.current_context();
                            let p = ctx.pop();
                            Ok(<H as Getable>::from_value(&dst, (*p).clone()))
                        }
                        Err(e) => Err(e.to_string()),
                    }
                };
                if res < 0 {
                    return match moved {
                        Err(_) => Ok(()),
                        Ok(_) => Err("expected-error: moving a channel end to an unrelated heap should fail".into()),
                    };
                }
                self.handles.insert((d, res as u64), moved?);
            }
            "collect" => {
                self.threads[&t].collect();
            }
            other => return Err(format!("harness: unknown op {}", other)),
        }
        Ok(())
    }

    /// Compares the real state with the model state after a step; returns violations (key, text)
    fn verify(&mut self, s: &Value, out: &mut Vec<(String, String)>) {
        let nthr = s["nthr"].as_u64().unwrap();
        let objs = s["obj"].as_array().unwrap();
        let gone: Vec<u64> = s["gone"].as_array().map(|a| a.iter().filter_map(|x| x.as_u64()).collect()).unwrap_or_default();
        let mut map: HashMap<u64, usize> = HashMap::new();
        let mut rev: HashMap<usize, u64> = HashMap::new();
        let mut seen: HashSet<u64> = HashSet::new();
        for t in 1..=nthr {
            let vm = s["vmof"][(t - 1) as usize].as_u64().unwrap();
            if gone.contains(&vm) {
                continue;
            }
            let rooted = s["rooted"][(t - 1) as usize].as_array().cloned().unwrap_or_default();
            for o in rooted {
                let o = o.as_u64().unwrap();
                match self.handles.get(&(t, o)) {
                    Some(h) => {
                        let h = h.clone();
                        self.compare(o as i64, h.get_variant(), objs, &mut map, &mut rev, &mut seen, out, 0);
                    }
                    None => out.push(("harness:missing-handle".into(), format!("no handle for object {} rooted in thread {}", o, t))),
                }
            }
            let stack: Vec<i64> = s["stack"][(t - 1) as usize].as_array().map(|a| a.iter().map(|x| x.as_i64().unwrap()).collect()).unwrap_or_default();
            let th = self.threads[&t].clone();
            let mut real: Vec<Variants> = Vec::new();
            th.verif_with_stack(|v| real.push(unsafe { std::mem::transmute::<Variants, Variants<'static>>(v.clone()) }));
            if real.len() != stack.len() {
                out.push(("stack-length".into(), format!("thread {}: real stack has {} values, model {}", t, real.len(), stack.len())));
            } else {
                for (m, r) in stack.iter().zip(real.into_iter()) {
                    self.compare(*m, r, objs, &mut map, &mut rev, &mut seen, out, 0);
                }
            }
        }
        for (o, a) in map {
            self.addr_of.insert(o, a);
        }
        // objects the model says were reclaimed must be reclaimed (quarantine is on: addresses are never reused)
        if s["op"] == "collect" {
            for (i, o) in objs.iter().enumerate() {
                let id = (i + 1) as u64;
                if o["kind"] == "freed" {
                    if let Some(addr) = self.addr_of.get(&id) {
                        if !unsafe { gluon::vm::gc::verif_freed_at(*addr) } {
                            out.push(("not-reclaimed".into(), format!("object {} is unreachable after {} but was not reclaimed", id, s["op"])));
                        }
                    }
                }
            }
        }
        // isolation / dangling over everything Trace reaches (library objects included)
        let parents = verif::heap_parents();
        for t in 1..=nthr {
            let vm = s["vmof"][(t - 1) as usize].as_u64().unwrap();
            if gone.contains(&vm) || s["parent"][(t - 1) as usize].as_u64().unwrap_or(0) != 0 {
                continue;
            }
            let g = self.threads[&t].verif_walk(false);
            for n in &g.nodes {
                if n.freed {
                    out.push((format!("walk-dangling:{}", short_type(n.type_name)), format!("a freed {} (heap {}) is reachable from the roots of thread {}", n.type_name, n.heap, t)));
                }
            }
            for (a, b) in &g.edges {
                // roots, and the roots held by a Thread object (which lives in its parent's heap but owns
                // the values of its own heap), are checked through the handles above
                if *a == usize::MAX || g.nodes[*a].type_name.ends_with("::Thread") {
                    continue;
                }
                let (ha, hb) = (g.nodes[*a].heap, g.nodes[*b].heap);
                if !is_ancestor_or_self(&parents, hb, ha) {
                    out.push((format!("walk-isolation:{}->{}", short_type(g.nodes[*a].type_name), short_type(g.nodes[*b].type_name)),
                              format!("{} in heap {} points to {} in heap {} which is not that heap or one of its ancestors", g.nodes[*a].type_name, ha, g.nodes[*b].type_name, hb)));
                }
            }
        }
    }

    #[allow(clippy::too_many_arguments)]
    fn compare(&self, m: i64, r: Variants, objs: &[Value], map: &mut HashMap<u64, usize>, rev: &mut HashMap<usize, u64>,
               seen: &mut HashSet<u64>, out: &mut Vec<(String, String)>, depth: usize) {
        if depth > 64 {
            return;
        }
        if m == 0 {
            match r.as_ref() {
                ValueRef::Int(0) => (),
                other => out.push(("shape:immediate".into(), format!("model has an immediate where the VM has {:?}", render_ref(other)))),
            }
            return;
        }
        let id = m as u64;
        let o = &objs[(id - 1) as usize];
        let kind = o["kind"].as_str().unwrap_or("");
        let (addr, heap, freed) = match r.verif_ptr_info() {
            Some(x) => x,
            None => {
                out.push(("shape:pointer".into(), format!("model object {} ({}) is an immediate in the VM", id, kind)));
                return;
            }
        };
        if freed {
            out.push((format!("dangling:{}", kind), format!("model object {} ({}) is reachable from a root but its memory was reclaimed", id, kind)));
            return;
        }
        if kind == "freed" || kind == "none" {
            out.push(("harness:model-freed-reachable".into(), format!("object {} reachable but freed in the model", id)));
            return;
        }
        let mheap = o["heap"].as_u64().unwrap();
        match self.heap_of.get(&mheap) {
            Some(h) if *h == heap => (),
            other => out.push((format!("owner:{}", kind), format!("object {} ({}) should live in heap of model thread {} (real heap {:?}) but lives in real heap {}", id, kind, mheap, other, heap))),
        }
        if let Some(prev) = map.get(&id) {
            if *prev != addr {
                out.push((format!("sharing-lost:{}", kind), format!("object {} is one object in the model but two in the VM", id)));
            }
        } else {
            if let Some(other) = rev.get(&addr) {
                if *other != id {
                    out.push((format!("sharing-extra:{}", kind), format!("model objects {} and {} are the same object in the VM (a copy was expected)", id, other)));
                }
            }
            if let Some(old) = self.addr_of.get(&id) {
                if *old != addr {
                    out.push((format!("identity:{}", kind), format!("object {} changed its address", id)));
                }
            }
            map.insert(id, addr);
            rev.insert(addr, id);
        }
        if !seen.insert(id) {
            return;
        }
        let f: Vec<i64> = o["f"].as_array().map(|a| a.iter().map(|x| x.as_i64().unwrap()).collect()).unwrap_or_default();
        match (kind, r.as_ref()) {
            ("data", ValueRef::Data(d)) => {
                if d.len() != 2 {
                    out.push(("shape:data".into(), format!("object {} has {} fields", id, d.len())));
                    return;
                }
                for i in 0..2 {
                    self.compare(f[i], d.get_variant(i).unwrap(), objs, map, rev, seen, out, depth + 1);
                }
            }
            ("cell", ValueRef::Userdata(u)) => match u.downcast_ref::<Reference<A>>() {
                Some(cell) => {
                    let owner = cell.verif_owner();
                    if self.threads.get(&mheap).map(|t| t.verif_addr()) != Some(owner) {
                        out.push(("cell-owner".into(), format!("cell {} is not owned by model thread {}", id, mheap)));
                    }
                    cell.verif_with_value(|v| self.compare(f[0], v, objs, map, rev, seen, out, depth + 1));
                }
                None => out.push(("shape:cell".into(), format!("object {} is not a Reference", id))),
            },
            ("chan", ValueRef::Data(d)) => {
                let mut found = false;
                for i in 0..d.len() {
                    if let Some(ValueRef::Userdata(u)) = d.get(i) {
                        if let Some(rx) = u.downcast_ref::<Receiver<A>>() {
                            found = true;
                            let mut q: Vec<Variants> = Vec::new();
                            rx.verif_with_queue(|v| q.push(unsafe { std::mem::transmute::<Variants, Variants<'static>>(v.clone()) }));
                            if q.len() != f.len() {
                                out.push(("queue-length".into(), format!("channel {}: {} queued in the VM, {} in the model", id, q.len(), f.len())));
                            } else {
                                for (mv, rv) in f.iter().zip(q.into_iter()) {
                                    self.compare(*mv, rv, objs, map, rev, seen, out, depth + 1);
                                }
                            }
                        }
                    }
                }
                if !found {
                    out.push(("shape:chan".into(), format!("object {}: no receiver found", id)));
                }
            }
            (k, other) => out.push((format!("shape:{}", k), format!("object {} is {} in the model but {} in the VM", id, k, render_ref(other)))),
        }
    }
}

fn short_type(t: &str) -> String {
    let t = t.split('<').next().unwrap_or(t);
    t.rsplit("::").next().unwrap_or(t).to_string()
}

fn is_ancestor_or_self(parents: &HashMap<usize, usize>, anc: usize, mut h: usize) -> bool {
    for _ in 0..64 {
        if h == anc {
            return true;
        }
        match parents.get(&h) {
            Some(p) => h = *p,
            None => return false,
        }
    }
    false
}

pub fn probe_drop() {
    verif::set_quarantine(true);
    let vm = new_vm_ctx();
    let faddr = vm.funcs.get_variant().verif_ptr_info().unwrap().0;
    let mode = std::env::var("MODE").unwrap_or_default();
    let mut addr = 0;
    if mode.contains('c') {
        let th = vm.root.clone();
        let fv = func_variant(&vm, "mkref");
        let mut f = F1Io::from_value(&th, fv);
        let r = match f.call(vm.zero.clone()) { Ok(IO::Value(v)) => v, _ => panic!() };
        addr = r.get_variant().verif_ptr_info().unwrap().0;
    }
    if mode.contains('d') {
        let th = vm.root.clone();
        let fv = func_variant(&vm, "mk2");
        let mut f = F2::from_value(&th, fv);
        let r = f.call(vm.zero.clone(), vm.zero.clone()).unwrap();
        addr = r.get_variant().verif_ptr_info().unwrap().0;
    }
    if mode.contains('x') {
        let Vm { root, funcs, zero } = vm;
        drop(funcs);
        drop(zero);
        let child = root.new_thread().unwrap();
        drop(child);
        root.collect();
        println!("after collect: funcs freed={}", unsafe { gluon::vm::gc::verif_freed_at(faddr) });
        drop(root);
    } else {
        drop(vm);
    }
    println!("ctx dropped: funcs freed={} result freed={}", unsafe { gluon::vm::gc::verif_freed_at(faddr) }, addr != 0 && unsafe { gluon::vm::gc::verif_freed_at(addr) });
}

/// job: {"id", "walk": [steps], "max_thr"} -> {"id","status","violations":[[key,text,step]], "steps"}
pub fn cmd(_args: &[String]) {
    std::panic::set_hook(Box::new(|_| {}));
    verif::set_quarantine(true);
    serve(|job| {
        let walk = job["walk"].as_array().cloned().unwrap_or_default();
        let max_thr = job["max_thr"].as_u64().unwrap_or(4);
        let stress = job["stress"].as_u64().unwrap_or(0) as usize;
        let mut viol: Vec<Value> = Vec::new();
        let mut done = 0;
        let r = catch_unwind(AssertUnwindSafe(|| {
            let mut w = World::new(max_thr);
            verif::set_stress(stress);
            for (i, s) in walk.iter().enumerate() {
                println!("{{\"log\":[{}]}}", i);
                match w.step(s, i) {
                    Ok(()) => (),
                    Err(e) => {
                        let key = if e.starts_with("expected-error") || e.starts_with("send-result") || e.starts_with("harness") {
                            e.split(':').next().unwrap().to_string()
                        } else {
                            format!("vm-error:{}", s["op"].as_str().unwrap_or(""))
                        };
                        viol.push(json!([format!("{}:{}", s["op"].as_str().unwrap_or(""), key), e, i]));
                        break;
                    }
                }
                if s["res"].as_i64() == Some(-1) {
                    // the operation failed as the model predicts; a failed call leaves its operands on the value
                    // stack (reported by the C06 check), so the rest of this walk is outside the model
                    done = i + 1;
                    break;
                }
                let mut out = Vec::new();
                w.verify(s, &mut out);
                done = i + 1;
                if !out.is_empty() {
                    for (k, t) in out.into_iter().take(4) {
                        viol.push(json!([format!("{}:{}", s["op"].as_str().unwrap_or(""), k), t, i]));
                    }
                    break;
                }
            }
            // epilogue: every thread collects twice, the graph of the last model state must stay intact
            if job["epilogue"].as_bool() == Some(true) && viol.is_empty() && done == walk.len() && !walk.is_empty() {
                let mut last = walk[walk.len() - 1].clone();
                last["op"] = json!("epilogue");
                let nthr = last["nthr"].as_u64().unwrap();
                let gone: Vec<u64> = last["gone"].as_array().map(|a| a.iter().filter_map(|x| x.as_u64()).collect()).unwrap_or_default();
                'outer: for round in 0..2 {
                    for t in 1..=nthr {
                        if gone.contains(&last["vmof"][(t - 1) as usize].as_u64().unwrap()) {
                            continue;
                        }
                        println!("{{\"log\":[{}]}}", 1000 + round * 100 + t);
                        w.threads[&t].collect();
                        let mut out = Vec::new();
                        w.verify(&last, &mut out);
                        if !out.is_empty() {
                            for (k, text) in out.into_iter().take(4) {
                                viol.push(json!([format!("epilogue-collect:{}", k), format!("after collection #{} by thread {}: {}", round + 1, t, text), walk.len()]));
                            }
                            break 'outer;
                        }
                    }
                }
            }
            verif::set_stress(0);
            // dropping the world drops every VM: must not crash
            drop(w);
        }));
        verif::set_stress(0);
        let status = match r {
            Ok(()) => "ok".to_string(),
            Err(p) => format!("panic: {}", panic_message(&p)),
        };
        json!({"id": job["id"], "status": status, "violations": viol, "steps": done})
    });
}

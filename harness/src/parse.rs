//! C08 / C10 helpers: parse an expression and dump the AST without positions
use gluon::base::symbol::{SymbolModule, Symbols};
use gluon::base::types::TypeCache;
use gluon::parser::parse_partial_expr;

/// Debug dump of the parsed expression with spans removed; Err = parse errors
pub fn dump(src: &str) -> Result<String, String> {
    let mut symbols = Symbols::new();
    let mut module = SymbolModule::new("test".into(), &mut symbols);
    let type_cache = TypeCache::default();
    gluon::base::mk_ast_arena!(arena);
    let r = parse_partial_expr((*arena).borrow(), &mut module, &type_cache, src);
    match r {
        Ok(e) => Ok(strip(&format!("{:?}", e))),
        Err((_, err)) => Err(err.to_string()),
    }
}

/// Debug dump including spans
pub fn dump_raw(src: &str) -> Result<String, String> {
    let mut symbols = Symbols::new();
    let mut module = SymbolModule::new("test".into(), &mut symbols);
    let type_cache = TypeCache::default();
    gluon::base::mk_ast_arena!(arena);
    let r = parse_partial_expr((*arena).borrow(), &mut module, &type_cache, src);
    match r {
        Ok(e) => Ok(format!("{:?}", e)),
        Err((_, err)) => Err(err.to_string()),
    }
}

fn strip(s: &str) -> String {
    // remove `span: Span { start: ByteIndex(1), end: ByteIndex(2) }` style position data
    let mut out = String::with_capacity(s.len());
    let bytes = s.as_bytes();
    let mut i = 0;
    while i < bytes.len() {
        if s[i..].starts_with("Span {") {
            // skip to the matching brace
            let mut depth = 0;
            while i < bytes.len() {
                if bytes[i] == b'{' {
                    depth += 1;
                } else if bytes[i] == b'}' {
                    depth -= 1;
                    if depth == 0 {
                        i += 1;
                        break;
                    }
                }
                i += 1;
            }
            out.push_str("_");
        } else {
            out.push(bytes[i] as char);
            i += 1;
        }
    }
    out
}

//! C16, scheduling dimension (Imports.tla): a VM whose spawner is a deterministic single-threaded executor; the tasks
//! the VM spawns (one per `import!` of a module) are polled in the priority order given by the job, so that they
//! finish in the completion order TLC chose.  The reported text must not depend on that order.
use std::future::Future;
use std::sync::{Arc, Mutex};
use std::task::{Context, Poll};

use futures::task::{noop_waker, FutureObj, Spawn, SpawnError};
use gluon::import::{DefaultImporter, Import};
use gluon::query::CompilationBase;
use gluon::vm::api::{Hole, OpaqueValue};
use gluon::vm::vm::GlobalVmStateBuilder;
use gluon::{RootedThread, Thread, ThreadExt};
use serde_json::{json, Value};

use crate::common::*;

#[derive(Clone, Default)]
struct Tasks(Arc<Mutex<Vec<FutureObj<'static, ()>>>>);

impl Spawn for Tasks {
    fn spawn_obj(&self, future: FutureObj<'static, ()>) -> Result<(), SpawnError> {
        self.0.lock().unwrap().push(future);
        Ok(())
    }
}

/// `order`: 1-based spawn indices, the first is polled first in every round (tasks not named come last, oldest first)
fn run<F: Future>(spawned: &Tasks, order: &[usize], main: F) -> Result<(F::Output, usize), String> {
    let waker = noop_waker();
    let mut cx = Context::from_waker(&waker);
    let mut main = Box::pin(main);
    let mut running: Vec<(usize, FutureObj<'static, ()>)> = Vec::new();
    let mut next_index = 1;
    let mut rounds = 0;
    loop {
        if let Poll::Ready(value) = main.as_mut().poll(&mut cx) {
            return Ok((value, next_index - 1));
        }
        for f in spawned.0.lock().unwrap().drain(..) {
            running.push((next_index, f));
            next_index += 1;
        }
        if running.is_empty() {
            return Err("main is pending but no task is left to run".to_string());
        }
        rounds += 1;
        if rounds > 100_000 {
            return Err("no progress".to_string());
        }
        let prio = |idx: usize| order.iter().position(|&o| o == idx).unwrap_or(order.len() + idx);
        let mut turn: Vec<usize> = (0..running.len()).collect();
        turn.sort_by_key(|&i| prio(running[i].0));
        let mut finished = Vec::new();
        for i in turn {
            if std::pin::Pin::new(&mut running[i].1).poll(&mut cx).is_ready() {
                finished.push(i);
            }
        }
        finished.sort();
        for i in finished.into_iter().rev() {
            drop(running.remove(i));
        }
    }
}

/// job: {"id", "modules": [[name, src]..], "main": src, "order": [k..]} -> {"status", "text", "spawned"}
pub fn cmd(_args: &[String]) {
    std::panic::set_hook(Box::new(|_| {}));
    serve(|job| {
        let tasks = Tasks::default();
        let vm = RootedThread::with_global_state(GlobalVmStateBuilder::new().spawner(Some(Box::new(tasks.clone()))).build());
        vm.get_macros().insert(String::from("import"), Import::new(DefaultImporter));
        vm.get_database_mut().set_implicit_prelude(false);
        {
            let mut db = vm.get_database_mut();
            for m in job["modules"].as_array().cloned().unwrap_or_default() {
                db.add_module(m[0].as_str().unwrap_or("").to_string(), m[1].as_str().unwrap_or(""));
            }
        }
        let order: Vec<usize> = job["order"].as_array().cloned().unwrap_or_default().iter().filter_map(|x| x.as_u64().map(|x| x as usize)).collect();
        let main = job["main"].as_str().unwrap_or("").to_string();
        let r = std::panic::catch_unwind(std::panic::AssertUnwindSafe(|| {
            run(&tasks, &order, vm.run_expr_async::<OpaqueValue<&Thread, Hole>>("main", &main)).map(|(res, spawned)| {
                let text = match res {
                    Ok((v, typ)) => format!("ok: {} : {}", render(v.get_variant()), typ),
                    Err(err) => err.to_string(),
                };
                (text, spawned)
            })
        }));
        match r {
            Ok(Ok((text, spawned))) => json!({"id": job["id"], "status": "ok", "text": text, "spawned": spawned}),
            Ok(Err(e)) => json!({"id": job["id"], "status": "executor", "text": e}),
            Err(p) => json!({"id": job["id"], "status": "panic", "text": panic_message(&p)}),
        }
    });
}

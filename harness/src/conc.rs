//! C17 replay: runs generated gluon programs (one per model walk) and reports the observation log
use std::panic::{catch_unwind, AssertUnwindSafe};

use gluon::vm::api::IO;
use gluon::ThreadExt;
use serde_json::json;

use crate::common::*;
use crate::host;

pub fn fresh_vm() -> gluon::RootedThread {
    let s = Settings { run_io: true, ..Settings::default() };
    let vm = new_vm(&s);
    host::install(&vm);
    vm
}

/// One job: `{"id":..,"src":..}` -> `{"id","status","msg","log"}`
pub fn cmd(_args: &[String]) {
    std::panic::set_hook(Box::new(|_| {}));
    host::set_stream(true);
    let mut vm = fresh_vm();
    let mut used = 0;
    serve(|job| {
        let src = job["src"].as_str().unwrap_or("").to_string();
        host::clear();
        if used >= 40 {
            vm = fresh_vm();
            used = 0;
        }
        used += 1;
        let r = catch_unwind(AssertUnwindSafe(|| vm.run_expr::<IO<()>>("walk", &src)));
        let log = host::take_log();
        let (status, msg) = match r {
            Ok(Ok(_)) => ("ok", String::new()),
            Ok(Err(e)) => {
                used = 1000;
                ("err", e.to_string())
            }
            Err(p) => {
                used = 1000;
                let m = panic_message(&p);
                // the VM may hold poisoned locks: leak it instead of dropping it
                let old = std::mem::replace(&mut vm, fresh_vm());
                std::mem::forget(old);
                ("panic", m)
            }
        };
        host::clear();
        json!({"id": job["id"], "status": status, "msg": msg, "log": log})
    });
    std::mem::forget(vm);
}

//! C18: printed types read back as the same type.  A type given as a prefix code (TypeSyntax.tla) is built as an
//! `ArcType`, rendered at several widths, parsed back inside `let _ : <type> = ...` and compared structurally.
use std::ops::Deref;

use gluon::base::ast::{Expr, SpannedExpr, ValueBindings};
use gluon::base::kind::Kind;
use gluon::base::symbol::{Symbol, SymbolModule, Symbols};
use gluon::base::types::{ArcType, ArgType, Field, Generic, KindedIdent, Type, TypeCache, TypePtr};
use gluon::parser::parse_partial_expr;
use serde_json::{json, Value};

use crate::common::*;

type T = ArcType<&'static str>;

fn intern(s: &str) -> &'static str {
    Box::leak(s.to_string().into_boxed_str())
}

fn ident(name: &str) -> T {
    Type::ident(KindedIdent { name: intern(name), typ: Kind::typ() })
}

/// builds the type which starts at code[i]; returns (type, next index)
fn build(code: &[Value], i: usize) -> (T, usize) {
    let g = code[i][0].as_str().unwrap();
    let a = code[i][1].as_i64().unwrap_or(0);
    match g {
        "int" => (Type::int(), i + 1),
        "str" => (Type::string(), i + 1),
        "unit" => (Type::unit(), i + 1),
        "var" => (Type::generic(Generic::new(if a == 1 { "a" } else { "b" }, Kind::typ())), i + 1),
        "con" => (ident(if a == 1 { "Foo" } else { "Bar" }), i + 1),
        "fn" | "ifn" => {
            let (l, j) = build(code, i + 1);
            let (r, k) = build(code, j);
            (Type::function_type(if g == "fn" { ArgType::Explicit } else { ArgType::Implicit }, vec![l], r), k)
        }
        "afn" => {
            let (l, j) = build(code, i + 1);
            let (r, k) = build(code, j);
            (Type::app(Type::builtin(gluon_base::types::BuiltinType::Function), vec![l, r].into_iter().collect()), k)
        }
        "app1" => {
            let (x, j) = build(code, i + 1);
            (Type::app(ident("List"), vec![x].into_iter().collect()), j)
        }
        "app2" => {
            let (x, j) = build(code, i + 1);
            let (y, k) = build(code, j);
            (Type::app(ident("Map"), vec![x, y].into_iter().collect()), k)
        }
        "tup" => {
            let (x, j) = build(code, i + 1);
            let (y, k) = build(code, j);
            (Type::record(vec![], vec![Field::new("_0", x), Field::new("_1", y)]), k)
        }
        "rec1" => {
            let (x, j) = build(code, i + 1);
            (Type::record(vec![], vec![Field::new("x", x)]), j)
        }
        "rec2" => {
            let (x, j) = build(code, i + 1);
            let (y, k) = build(code, j);
            (Type::record(vec![], vec![Field::new("x", x), Field::new("y", y)]), k)
        }
        "orec" => {
            let (x, j) = build(code, i + 1);
            (Type::poly_record(vec![], vec![Field::new("x", x)], Type::generic(Generic::new("r", Kind::row()))), j)
        }
        "var1" => {
            // | A t | B
            let (x, j) = build(code, i + 1);
            (
                Type::variant(vec![
                    Field::new("A", Type::function(vec![x], Type::opaque())),
                    Field::new("B", Type::opaque()),
                ]),
                j,
            )
        }
        "forall" => {
            let (x, j) = build(code, i + 1);
            (Type::forall(vec![Generic::new(if a == 1 { "a" } else { "b" }, Kind::typ())], x), j)
        }
        other => panic!("unknown type code {}", other),
    }
}

/// structural s-expression of a type; identifiers, generics and builtins are all written by name
fn sexp<Id, P>(t: &P, out: &mut String)
where
    Id: AsRef<str>,
    P: TypePtr<Id = Id> + Deref<Target = Type<Id, P>>,
    P::Generics: Deref<Target = [Generic<Id>]>,
    P::Types: Deref<Target = [P]>,
    P::Fields: Deref<Target = [Field<P::SpannedId, P>]>,
    P::SpannedId: AsRef<str>,
{
    fn name(s: &str) -> &str {
        s.rsplit('.').next().unwrap_or(s)
    }
    match &**t {
        Type::Hole => out.push('_'),
        Type::Opaque => out.push_str("<opaque>"),
        Type::Error => out.push_str("<error>"),
        Type::Builtin(b) => out.push_str(b.to_str()),
        Type::Forall(params, inner) => {
            out.push_str("(forall [");
            for p in params.iter() {
                out.push_str(name(p.id.as_ref()));
                out.push(' ');
            }
            out.push_str("] ");
            sexp(inner, out);
            out.push(')');
        }
        Type::App(f, args) if args.len() == 2 && matches!(&**f, Type::Builtin(gluon_base::types::BuiltinType::Function)) => {
            // the applied representation of a function type denotes the same type as the arrow
            out.push_str("(fn ");
            sexp(&args[0], out);
            out.push(' ');
            sexp(&args[1], out);
            out.push(')');
        }
        Type::App(f, args) => {
            out.push_str("(app ");
            sexp(f, out);
            for a in args.iter() {
                out.push(' ');
                sexp(a, out);
            }
            out.push(')');
        }
        Type::Function(arg_type, a, r) => {
            out.push_str(if *arg_type == ArgType::Explicit { "(fn " } else { "(ifn " });
            sexp(a, out);
            out.push(' ');
            sexp(r, out);
            out.push(')');
        }
        Type::Record(row) => {
            out.push_str("(record ");
            sexp(row, out);
            out.push(')');
        }
        Type::Variant(row) => {
            out.push_str("(variant ");
            sexp(row, out);
            out.push(')');
        }
        Type::Effect(row) => {
            out.push_str("(effect ");
            sexp(row, out);
            out.push(')');
        }
        Type::EmptyRow => out.push_str("()"),
        Type::ExtendRow { fields, rest } => {
            out.push_str("(row");
            for f in fields.iter() {
                out.push_str(" (");
                out.push_str(name(f.name.as_ref()));
                out.push(' ');
                sexp(&f.typ, out);
                out.push(')');
            }
            out.push_str(" | ");
            sexp(rest, out);
            out.push(')');
        }
        Type::ExtendTypeRow { rest, .. } => {
            out.push_str("(tyrow | ");
            sexp(rest, out);
            out.push(')');
        }
        Type::Ident(id) => out.push_str(name(id.name.as_ref())),
        Type::Generic(g) => out.push_str(name(g.id.as_ref())),
        Type::Projection(_) => out.push_str("<projection>"),
        Type::Variable(_) => out.push_str("<var>"),
        Type::Alias(_) => out.push_str("<alias>"),
        Type::Skolem(_) => out.push_str("<skolem>"),
    }
}

fn parse_back(text: &str) -> Result<String, String> {
    let src = format!("let q : {} = ()\n()\n", text.replace('\n', "\n    "));
    let mut symbols = Symbols::new();
    let mut module = SymbolModule::new("test".into(), &mut symbols);
    let type_cache = TypeCache::default();
    gluon::base::mk_ast_arena!(arena);
    let expr: SpannedExpr<Symbol> = match parse_partial_expr((*arena).borrow(), &mut module, &type_cache, &src[..]) {
        Ok(e) => e,
        Err((_, err)) => return Err(err.to_string()),
    };
    match &expr.value {
        Expr::LetBindings(ValueBindings::Plain(bind), _) => match &bind.typ {
            Some(t) => {
                let mut s = String::new();
                sexp(t, &mut s);
                Ok(s)
            }
            None => Err("no type in binding".into()),
        },
        _ => Err("unexpected expression".into()),
    }
}

/// job: {"id", "code": [[tag, a], ...], "widths": [..]} -> per width {text, ok, parsed}
pub fn cmd(_args: &[String]) {
    std::panic::set_hook(Box::new(|_| {}));
    serve(|job| {
        let code = job["code"].as_array().cloned().unwrap_or_default();
        let widths: Vec<usize> = job["widths"].as_array().map(|a| a.iter().filter_map(|x| x.as_u64()).map(|x| x as usize).collect()).unwrap_or(vec![80]);
        let r = std::panic::catch_unwind(std::panic::AssertUnwindSafe(|| {
            let (t, _) = build(&code, 0);
            let mut want = String::new();
            sexp(&t, &mut want);
            let mut out = Vec::new();
            for w in &widths {
                let text = t.display(*w).to_string();
                let back = parse_back(&text);
                out.push(json!({"width": w, "text": text, "parsed": back.clone().unwrap_or_default(), "error": back.err()}));
            }
            (want, out)
        }));
        match r {
            Ok((want, out)) => json!({"id": job["id"], "status": "ok", "want": want, "renders": out}),
            Err(p) => json!({"id": job["id"], "status": "panic", "msg": panic_message(&p)}),
        }
    });
}

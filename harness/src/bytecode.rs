//! Source -> bytecode (serde_json) -> load -> run
use futures::executor::block_on;
use gluon::compiler_pipeline::{Executable, Precompiled};
use gluon::{RootedThread, ThreadExt};

use crate::common::*;

pub fn compile(vm: &RootedThread, name: &str, src: &str) -> Result<String, String> {
    let mut buffer = Vec::new();
    {
        let mut serializer = serde_json::Serializer::new(&mut buffer);
        block_on(vm.compile_to_bytecode(name, src, &mut serializer)).map_err(|e| match e {
            gluon::either::Either::Left(e) => e.to_string(),
            gluon::either::Either::Right(e) => format!("serializer: {}", e),
        })?;
    }
    String::from_utf8(buffer).map_err(|e| e.to_string())
}

pub fn run_json(vm: &RootedThread, name: &str, json: &str) -> Result<(String, String), String> {
    // alternate between a deserializer that can lend strings from its input and one that cannot (a reader)
    if json.len() % 2 == 1 {
        let mut deserializer = serde_json::Deserializer::from_reader(json.as_bytes());
        let r = block_on(Precompiled(&mut deserializer).run_expr(
            &mut vm.module_compiler(&mut vm.get_database()),
            &**vm,
            name,
            "",
            (),
        ));
        return match r {
            Ok(v) => Ok((render(v.value.get_variant()), v.typ.to_string())),
            Err(e) => Err(e.to_string()),
        };
    }
    let mut deserializer = serde_json::Deserializer::from_str(json);
    let r = block_on(Precompiled(&mut deserializer).run_expr(
        &mut vm.module_compiler(&mut vm.get_database()),
        &**vm,
        name,
        "",
        (),
    ));
    match r {
        Ok(v) => Ok((render(v.value.get_variant()), v.typ.to_string())),
        Err(e) => Err(e.to_string()),
    }
}

pub fn roundtrip(vm: &RootedThread, name: &str, src: &str) -> Result<(String, String), String> {
    let json = compile(vm, name, src)?;
    run_json(vm, name, &json)
}


/// Observes a program value: functions are applied to fixed arguments, everything else is rendered.
fn observe(vm: &gluon::Thread, v: gluon::vm::Variants, typ: &str) -> String {
    use gluon::vm::api::{FunctionRef, Getable};
    let t: String = typ.split_whitespace().collect::<Vec<_>>().join(" ");
    let r = std::panic::catch_unwind(std::panic::AssertUnwindSafe(|| match t.as_str() {
        "Int -> Int" => {
            let mut f: FunctionRef<fn(i64) -> i64> = Getable::from_value(vm, v.clone());
            match f.call(2) { Ok(x) => format!("call(2) = {}", x), Err(e) => format!("call(2) failed: {}", crate::common::error_class(&e.to_string())) }
        }
        "Int -> Int -> Int" => {
            let mut f: FunctionRef<fn(i64, i64) -> i64> = Getable::from_value(vm, v.clone());
            match f.call(2, 3) { Ok(x) => format!("call(2, 3) = {}", x), Err(e) => format!("call(2, 3) failed: {}", crate::common::error_class(&e.to_string())) }
        }
        _ => crate::common::render(v.clone()),
    }));
    match r {
        Ok(s) => s,
        Err(p) => format!("panic: {}", crate::common::panic_message(&p)),
    }
}

/// {"status": "ok" | "no-value" | "unserializable", "direct": obs, "loads": [{"vm": "same"|"fresh", "before_gc": obs, "after_gc": obs, "reserialized_equal": bool} | {"vm", "error"}]}
pub fn value_roundtrip(vm: &RootedThread, src: &str, settings: &crate::common::Settings) -> serde_json::Value {
    use gluon::vm::api::{Hole, OpaqueValue};
    use gluon::vm::serialization::{DeSeed, SeSeed};
    use serde_json::json;
    use serde_state::ser::SerializeState;
    // every program gets its own name: serialised closures name their functions after the expression they came from and
    // a long-lived VM would otherwise see many different functions under one name
    static COUNTER: std::sync::atomic::AtomicUsize = std::sync::atomic::AtomicUsize::new(0);
    let name = format!("vs{}", COUNTER.fetch_add(1, std::sync::atomic::Ordering::SeqCst));
    let (value, typ) = match vm.run_expr::<OpaqueValue<RootedThread, Hole>>(&name, src) {
        Ok(x) => x,
        Err(e) => return json!({"status": "no-value", "msg": e.to_string().lines().next().unwrap_or("").to_string()}),
    };
    let typ = typ.to_string();
    let to_json = |v: gluon::vm::Variants| -> Result<Vec<u8>, String> {
        let mut buffer = Vec::new();
        {
            let mut ser = serde_json::Serializer::new(&mut buffer);
            v.serialize_state(&mut ser, &SeSeed::new()).map_err(|e| e.to_string())?;
        }
        Ok(buffer)
    };
    let bytes = match to_json(value.get_variant()) {
        Ok(b) => b,
        Err(e) => return json!({"status": "unserializable", "msg": e}),
    };
    let direct = observe(vm, value.get_variant(), &typ);
    let mut loads = Vec::new();
    for which in ["same", "fresh"] {
        let target = if which == "same" { vm.clone() } else { crate::common::new_vm(settings) };
        let mut de = serde_json::Deserializer::from_slice(&bytes);
        let loaded: Result<gluon::vm::thread::RootedValue<RootedThread>, _> = {
            let mut ctx = target.current_context();
            DeSeed::new(&target, &mut ctx).deserialize(&mut de)
        };
        let loaded = match loaded {
            Ok(v) => v,
            Err(e) => {
                loads.push(json!({"vm": which, "error": e.to_string()}));
                continue;
            }
        };
        let before = observe(&target, loaded.get_variant(), &typ);
        target.collect();
        // reuse whatever the collection released
        let filler: Vec<_> = (0..16).filter_map(|_| {
            let mut de = serde_json::Deserializer::from_slice(&bytes);
            let mut ctx = target.current_context();
            let r: Result<gluon::vm::thread::RootedValue<RootedThread>, _> = DeSeed::new(&target, &mut ctx).deserialize(&mut de);
            r.ok()
        }).collect();
        let after = observe(&target, loaded.get_variant(), &typ);
        let again = to_json(loaded.get_variant()).map(|b| b == bytes).unwrap_or(false);
        drop(filler);
        loads.push(json!({"vm": which, "before_gc": before, "after_gc": after, "reserialized_equal": again}));
    }
    json!({"status": "ok", "type": typ, "direct": direct, "loads": loads})
}

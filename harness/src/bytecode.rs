//! Source -> bytecode (serde_json) -> load -> run
use gluon::RootedThread;

pub fn roundtrip(_vm: &RootedThread, _name: &str, _src: &str) -> Result<(String, String), String> {
    Err("bytecode roundtrip not built yet".into())
}

//! Source -> bytecode (serde_json) -> load -> run
use futures::executor::block_on;
use gluon::compiler_pipeline::{Executable, Precompiled};
use gluon::{RootedThread, ThreadExt};

use crate::common::*;

pub fn compile(vm: &RootedThread, name: &str, src: &str) -> Result<String, String> {
    let mut buffer = Vec::new();
    {
        let mut serializer = serde_json::Serializer::new(&mut buffer);
        block_on(vm.compile_to_bytecode(name, src, &mut serializer)).map_err(|e| match e {
            gluon::either::Either::Left(e) => e.to_string(),
            gluon::either::Either::Right(e) => format!("serializer: {}", e),
        })?;
    }
    String::from_utf8(buffer).map_err(|e| e.to_string())
}

pub fn run_json(vm: &RootedThread, name: &str, json: &str) -> Result<(String, String), String> {
    // alternate between a deserializer that can lend strings from its input and one that cannot (a reader)
    if json.len() % 2 == 1 {
        let mut deserializer = serde_json::Deserializer::from_reader(json.as_bytes());
        let r = block_on(Precompiled(&mut deserializer).run_expr(
            &mut vm.module_compiler(&mut vm.get_database()),
            &**vm,
            name,
            "",
            (),
        ));
        return match r {
            Ok(v) => Ok((render(v.value.get_variant()), v.typ.to_string())),
            Err(e) => Err(e.to_string()),
        };
    }
    let mut deserializer = serde_json::Deserializer::from_str(json);
    let r = block_on(Precompiled(&mut deserializer).run_expr(
        &mut vm.module_compiler(&mut vm.get_database()),
        &**vm,
        name,
        "",
        (),
    ));
    match r {
        Ok(v) => Ok((render(v.value.get_variant()), v.typ.to_string())),
        Err(e) => Err(e.to_string()),
    }
}

pub fn roundtrip(vm: &RootedThread, name: &str, src: &str) -> Result<(String, String), String> {
    let json = compile(vm, name, src)?;
    run_json(vm, name, &json)
}

//! C14: several OS threads compile and run programs on sibling gluon threads of one VM
use std::sync::{Arc, Barrier};

use gluon::query::CompilationBase;
use gluon::vm::api::{FunctionRef, Hole, OpaqueValue};
use gluon::vm::thread::RootedThread;
use gluon::ThreadExt;
use serde_json::{json, Value};

use crate::common::*;
use crate::host;

fn run_programs(th: &RootedThread, tid: usize, progs: &[String]) -> Vec<Value> {
    let mut out = Vec::new();
    for (i, src) in progs.iter().enumerate() {
        let r = std::panic::catch_unwind(std::panic::AssertUnwindSafe(|| run_any(th, &format!("t{}_p{}", tid, i), src)));
        out.push(match r {
            Ok(Ok((v, t))) => json!({"status": "ok", "value": v, "type": t, "msg": ""}),
            Ok(Err(e)) => json!({"status": "err", "value": "", "type": "", "msg": e}),
            Err(p) => json!({"status": "panic", "value": "", "type": "", "msg": panic_message(&p)}),
        });
    }
    out
}

/// job: {"id", "modules": [[name, src]..], "threads": [[src, ...], ...], "gc_stress": k}
///   or {"id", "scenario": "collect_vs_push", "iterations": n}
pub fn cmd(_args: &[String]) {
    std::panic::set_hook(Box::new(|info| {
        eprintln!("PANIC {}", info);
    }));
    gluon::vm::verif::set_global_quarantine(true);
    serve(|job| {
        host::GLOBAL_LOG_ON.store(true, std::sync::atomic::Ordering::SeqCst);
        host::GLOBAL_LOG.lock().unwrap().clear();
        let vm = new_vm(&Settings::default());
        host::install(&vm);
        if job["scenario"] == "collect_vs_push" {
            return collect_vs_push(job, &vm);
        }
        for m in job["modules"].as_array().cloned().unwrap_or_default() {
            vm.get_database_mut().add_module(m[0].as_str().unwrap().to_string(), m[1].as_str().unwrap());
        }
        for w in job["warmup"].as_array().cloned().unwrap_or_default() {
            let _ = run_any(&vm, "warm", w.as_str().unwrap_or(""));
        }
        let stress = job["gc_stress"].as_u64().unwrap_or(0) as usize;
        gluon::vm::verif::set_global_stress(stress);
        let lists: Vec<Vec<String>> = job["threads"].as_array().cloned().unwrap_or_default().iter()
            .map(|l| l.as_array().cloned().unwrap_or_default().iter().map(|s| s.as_str().unwrap_or("").to_string()).collect()).collect();
        let barrier = Arc::new(Barrier::new(lists.len()));
        let mut handles = Vec::new();
        for (tid, progs) in lists.into_iter().enumerate() {
            let child = vm.new_thread().expect("new_thread");
            let barrier = barrier.clone();
            handles.push(std::thread::Builder::new().stack_size(64 << 20).spawn(move || {
                barrier.wait();
                let r = run_programs(&child, tid, &progs);
                (r, child)
            }).unwrap());
        }
        // Locks.tla scenario ParentCollects: the thread that owns the root keeps collecting (root + every child heap)
        // while the children run on their own OS threads
        let mut parent_collections = 0u64;
        if job["parent_collects"] == true {
            while !handles.iter().all(|h| h.is_finished()) {
                vm.collect();
                parent_collections += 1;
            }
        }
        let mut results = Vec::new();
        let mut children = Vec::new();
        for h in handles {
            match h.join() {
                Ok((r, c)) => { results.push(Value::Array(r)); children.push(c); }
                Err(_) => results.push(json!("thread-panicked")),
            }
        }
        gluon::vm::verif::set_global_stress(0);
        // heap invariants after joining: nothing freed is reachable
        let g = vm.verif_walk(true);
        let dangling = g.nodes.iter().filter(|n| n.freed).count();
        let ticks: Vec<i64> = host::GLOBAL_LOG.lock().unwrap().iter().map(|e| e.1).collect();
        drop(children);
        std::mem::forget(vm);
        json!({"id": job["id"], "status": "ok", "results": results, "ticks": ticks, "dangling": dangling, "parent_collections": parent_collections})
    });
}

type H = OpaqueValue<RootedThread, Hole>;

/// OS thread A allocates on the parent (forcing collections of parent + child), OS thread B keeps calling a function on
/// the child with an argument rooted in the parent (Locks.tla scenario CollectVsPush)
fn collect_vs_push(job: &Value, vm: &RootedThread) -> Value {
    let n = job["iterations"].as_u64().unwrap_or(2000);
    vm.load_script("cvp", "let id x = x\n{ id, mk = \\n -> { a = n, b = [n, n] } }").expect("load");
    let child = vm.new_thread().expect("child");
    let data: H = vm.run_expr::<H>("mkdata", "let m = import! cvp\nm.mk 7").expect("data").0;
    let barrier = Arc::new(Barrier::new(2));
    let (b1, b2) = (barrier.clone(), barrier.clone());
    let parent = vm.clone();
    let a = std::thread::spawn(move || {
        b1.wait();
        for i in 0..n {
            let src = format!("let array = import! std.array.prim\nrec let build n acc = if n == 0 then array.len acc else build (n - 1) (array.append acc [n])\nbuild {} []", 20 + (i % 5));
            let _ = run_any(&parent, "alloc", &src);
            parent.collect();
        }
    });
    let child2 = child.clone();
    let b = std::thread::spawn(move || {
        b2.wait();
        let mut f: FunctionRef<fn(H) -> H> = child2.get_global("cvp.id").expect("cvp.id");
        let mut ok = 0;
        for _ in 0..n * 5 {
            if f.call(data.clone()).is_ok() {
                ok += 1;
            }
        }
        ok
    });
    let ra = a.join().is_ok();
    let rb = b.join().unwrap_or(0);
    drop(child);
    json!({"id": job["id"], "status": "ok", "a_finished": ra, "b_calls_ok": rb})
}

//! Lists the primitives exported by the std extern modules with their types (for C06 / Prims.tla)
use gluon::base::types::{ArcType, Type, TypeExt};
use gluon::ThreadExt;
use serde_json::json;

use crate::common::*;

pub fn cmd(args: &[String]) {
    std::panic::set_hook(Box::new(|_| {}));
    let mut out = Vec::new();
    for m in args {
        let vm = new_vm(&Settings::default());
        let src = format!("import! {}", m);
        let r = std::panic::catch_unwind(std::panic::AssertUnwindSafe(|| vm.run_expr::<AnyValue>("prims", &src)));
        let r = match r {
            Ok(r) => r.map_err(|e| e.to_string()),
            Err(p) => Err(format!("panic: {}", panic_message(&p))),
        };
        match r {
            Ok((_, typ)) => {
                let typ: ArcType = typ;
                for field in typ.row_iter() {
                    let name = field.name.declared_name().to_string();
                    let t = field.typ.to_string();
                    let is_fn = matches!(&**field.typ.remove_forall(), Type::Function(..));
                    out.push(json!({"module": m, "name": name, "type": t, "is_fn": is_fn}));
                }
            }
            Err(e) => out.push(json!({"module": m, "error": e})),
        }
    }
    println!("{}", serde_json::to_string(&out).unwrap());
}

fn main() {
    let vm = gluon::new_vm();
    use gluon::ThreadExt;
    let r = vm.run_expr::<i32>("t", "1 + 2");
    println!("{:?}", r.map(|x| x.0));
}

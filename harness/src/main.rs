#[macro_use]
extern crate gluon_vm;
#[macro_use]
extern crate gluon_codegen;
#[macro_use]
extern crate serde_derive;

mod common;
mod conc;
mod heap;
mod lang;
mod marshal;
mod sched;
mod editor;
mod frontend;
mod par;
mod types;
mod parse;
mod modules;
mod prims;
mod bytecode;
mod host;

use common::*;

fn usage() -> ! {
    eprintln!("usage: gvh <command> ...");
    std::process::exit(2)
}

fn cmd_run(args: &[String]) {
    let mut s = Settings::default();
    let mut file = None;
    for a in args {
        match a.as_str() {
            "--io" => s.run_io = true,
            "--noprelude" => s.prelude = false,
            "--noopt" => s.optimize = false,
            f => file = Some(f.to_string()),
        }
    }
    let src = std::fs::read_to_string(file.expect("file")).unwrap();
    let vm = new_vm(&s);
    host::install(&vm);
    match run_any(&vm, "probe", &src) {
        Ok((v, t)) => println!("OK {} : {}", v, t),
        Err(e) => println!("ERR {}", e),
    }
}

fn cmd_dropvm() {
    use gluon::ThreadExt;
    gluon::vm::verif::set_quarantine(true);
    let vm = new_vm(&Settings::default());
    let (v, _) = vm.run_expr::<AnyValue>("x", "{ a = 1, b = \"x\" }").unwrap();
    let addr = v.get_variant().verif_ptr_info().unwrap().0;
    drop(v);
    if std::env::var("P1").is_ok() {
        vm.load_script("drv", "{ mk2 = \\a b -> { l = a, r = b } }").unwrap();
    }
    if std::env::var("P2").is_ok() {
        let f: AnyValue = vm.get_global("drv").unwrap();
        drop(f);
    }
    if std::env::var("P3").is_ok() {
        let z = vm.run_expr::<AnyValue>("z", "0").unwrap().0;
        let mut f: gluon::vm::api::Function<gluon::RootedThread, fn(AnyValue, AnyValue) -> AnyValue> = vm.get_global("drv.mk2").unwrap();
        let r = f.call(z.clone(), z.clone()).unwrap();
        drop(r);
    }
    if let Ok(src) = std::env::var("PLOAD") {
        if std::env::var("PIO").is_ok() { vm.get_database_mut().run_io(true); }
        let r = vm.load_script("pload", &src);
        println!("pload ok={}", r.is_ok());
    }
    if let Ok(src) = std::env::var("PSRC") {
        if std::env::var("PIO").is_ok() { vm.get_database_mut().run_io(true); }
        let r = vm.run_expr::<AnyValue>("psrc", &src);
        println!("psrc ok={}", r.is_ok());
        drop(r);
    }
    if std::env::var("P4").is_ok() {
        let child = vm.new_thread().unwrap();
        drop(child);
    }
    println!("before drop freed={}", unsafe { gluon::vm::gc::verif_freed_at(addr) });
    drop(vm);
    println!("after drop freed={}", unsafe { gluon::vm::gc::verif_freed_at(addr) });
    let vm = gluon::vm::thread::RootedThread::new();
    let child = vm.new_thread().unwrap();
    drop(child);
    drop(vm);
    println!("bare vm dropped");
}

fn main() {
    let args: Vec<String> = std::env::args().collect();
    if args.len() < 2 {
        usage();
    }
    let rest = &args[2..];
    match args[1].as_str() {
        "run" => cmd_run(rest),
        "dropvm" => cmd_dropvm(),
        "dropctx" => heap::probe_drop(),
        "conc" => conc::cmd(rest),
        "heap" => heap::cmd(rest),
        "lang" => lang::cmd(rest),
        "marshal" => marshal::cmd(rest),
        "sched" => sched::cmd(rest),
        "par" => par::cmd(rest),
        "types" => types::cmd(rest),
        "parse" => { let src = std::fs::read_to_string(&rest[0]).unwrap(); println!("{:?}", parse::dump(&src)); }
        "modules" => modules::cmd(rest),
        "prims" => prims::cmd(rest),
        _ => usage(),
    }
}

#[macro_use]
extern crate gluon_vm;

mod common;
mod conc;
mod host;

use common::*;

fn usage() -> ! {
    eprintln!("usage: gvh <command> ...");
    std::process::exit(2)
}

fn cmd_run(args: &[String]) {
    let mut s = Settings::default();
    let mut file = None;
    for a in args {
        match a.as_str() {
            "--io" => s.run_io = true,
            "--noprelude" => s.prelude = false,
            "--noopt" => s.optimize = false,
            f => file = Some(f.to_string()),
        }
    }
    let src = std::fs::read_to_string(file.expect("file")).unwrap();
    let vm = new_vm(&s);
    match run_any(&vm, "probe", &src) {
        Ok((v, t)) => println!("OK {} : {}", v, t),
        Err(e) => println!("ERR {}", e),
    }
}

fn main() {
    let args: Vec<String> = std::env::args().collect();
    if args.len() < 2 {
        usage();
    }
    let rest = &args[2..];
    match args[1].as_str() {
        "run" => cmd_run(rest),
        "conc" => conc::cmd(rest),
        _ => usage(),
    }
}

//! C11: marshalling between Rust and Gluon.  The cases come from Marshal.tla (type term, value term); every value is
//! pushed directly, sent through a Gluon identity function, compared with the value the Gluon compiler builds for the
//! same literal, and sent through the serde bridge; the VM-side representation is projected to JSON so that the check
//! can compare it with Rep / SerRep of the specification.  `sig` jobs request a global at a Rust type.
use std::collections::BTreeMap;
use std::fmt::Debug;

use gluon::vm::api::de::De;
use gluon::vm::api::ser::Ser;
use gluon::vm::api::{FunctionRef, Getable, OpaqueValue, Pushable, ValueRef, VmType};
use gluon::vm::Variants;
use gluon::{RootedThread, Thread, ThreadExt};
use serde_json::{json, Value};

use crate::common::*;

#[derive(Debug, Clone, PartialEq, Getable, Pushable, VmType, Serialize, Deserialize)]
#[gluon(vm_type = "mtypes.Rec")]
pub struct Rec {
    n: i64,
    s: String,
    v: Vec<i64>,
}

#[derive(Debug, Clone, PartialEq, Getable, Pushable, VmType, Serialize, Deserialize)]
#[gluon(vm_type = "mtypes.En")]
pub enum En {
    Unit,
    One(i64),
    Two(String, f64),
}

/// the Gluon type lists the fields in another order than the Rust struct
#[derive(Debug, Clone, PartialEq, Getable, Pushable, VmType, Serialize, Deserialize)]
#[gluon(vm_type = "mtypes.Rec2")]
pub struct Rec2 {
    a: i64,
    b: String,
}

#[derive(Debug, Clone, PartialEq, Getable, Pushable, VmType, Serialize, Deserialize)]
#[gluon(vm_type = "mtypes.En2")]
pub enum En2 {
    Dot,
    Rect { width: i64, height: i64 },
    Label { id: i64, text: String },
}

const TYPES: &str = "type Rec = { n : Int, s : String, v : Array Int }\ntype En = | Unit | One Int | Two String Float\ntype Rec2 = { b : String, a : Int }\ntype En2 = | Dot | Rect { height : Int, width : Int } | Label { text : String, id : Int }\n{ Rec, En, Rec2, En2 }\n";

/// the value terms of Marshal.tla, with atoms already resolved to literals by the check
pub trait Model: Sized {
    fn from_model(v: &Value) -> Option<Self>;
    fn to_model(&self) -> Value;
}
fn tag(v: &Value) -> &str {
    v[0].as_str().unwrap_or("")
}
impl Model for i64 {
    fn from_model(v: &Value) -> Option<Self> {
        v[1].as_str()?.parse().ok()
    }
    fn to_model(&self) -> Value {
        json!(["int", self.to_string()])
    }
}
impl Model for f64 {
    fn from_model(v: &Value) -> Option<Self> {
        u64::from_str_radix(v[1].as_str()?, 16).ok().map(f64::from_bits)
    }
    fn to_model(&self) -> Value {
        json!(["float", format!("{:016x}", self.to_bits())])
    }
}
impl Model for u8 {
    fn from_model(v: &Value) -> Option<Self> {
        v[1].as_str()?.parse().ok()
    }
    fn to_model(&self) -> Value {
        json!(["byte", self.to_string()])
    }
}
impl Model for char {
    fn from_model(v: &Value) -> Option<Self> {
        std::char::from_u32(v[1].as_str()?.parse().ok()?)
    }
    fn to_model(&self) -> Value {
        json!(["char", (*self as u32).to_string()])
    }
}
impl Model for String {
    fn from_model(v: &Value) -> Option<Self> {
        v[1].as_str().map(|s| s.to_string())
    }
    fn to_model(&self) -> Value {
        json!(["str", self])
    }
}
impl Model for bool {
    fn from_model(v: &Value) -> Option<Self> {
        Some(v[1].as_str()? == "true")
    }
    fn to_model(&self) -> Value {
        json!(["bool", if *self { "true" } else { "false" }])
    }
}
impl Model for () {
    fn from_model(_: &Value) -> Option<Self> {
        Some(())
    }
    fn to_model(&self) -> Value {
        json!(["unit"])
    }
}
impl<T: Model> Model for Option<T> {
    fn from_model(v: &Value) -> Option<Self> {
        match tag(v) {
            "none" => Some(None),
            "some" => T::from_model(&v[1]).map(Some),
            _ => None,
        }
    }
    fn to_model(&self) -> Value {
        match self {
            None => json!(["none"]),
            Some(x) => json!(["some", x.to_model()]),
        }
    }
}
impl<T: Model, E: Model> Model for Result<T, E> {
    fn from_model(v: &Value) -> Option<Self> {
        match tag(v) {
            "ok" => T::from_model(&v[1]).map(Ok),
            "err" => E::from_model(&v[1]).map(Err),
            _ => None,
        }
    }
    fn to_model(&self) -> Value {
        match self {
            Ok(x) => json!(["ok", x.to_model()]),
            Err(x) => json!(["err", x.to_model()]),
        }
    }
}
impl<T: Model> Model for Vec<T> {
    fn from_model(v: &Value) -> Option<Self> {
        v[1].as_array()?.iter().map(T::from_model).collect()
    }
    fn to_model(&self) -> Value {
        json!(["list", self.iter().map(|x| x.to_model()).collect::<Vec<_>>()])
    }
}
impl<A: Model, B: Model> Model for (A, B) {
    fn from_model(v: &Value) -> Option<Self> {
        Some((A::from_model(&v[1])?, B::from_model(&v[2])?))
    }
    fn to_model(&self) -> Value {
        json!(["pair", self.0.to_model(), self.1.to_model()])
    }
}
impl<T: Model> Model for BTreeMap<String, T> {
    fn from_model(v: &Value) -> Option<Self> {
        let mut m = BTreeMap::new();
        for kv in v[1].as_array()? {
            m.insert(kv[0].as_str()?.to_string(), T::from_model(&kv[1])?);
        }
        Some(m)
    }
    fn to_model(&self) -> Value {
        json!(["map", self.iter().map(|(k, v)| json!([k, v.to_model()])).collect::<Vec<_>>()])
    }
}
impl Model for Rec {
    fn from_model(v: &Value) -> Option<Self> {
        Some(Rec { n: i64::from_model(&v[1])?, s: String::from_model(&v[2])?, v: Vec::<i64>::from_model(&v[3])? })
    }
    fn to_model(&self) -> Value {
        json!(["rec", self.n.to_model(), self.s.to_model(), self.v.to_model()])
    }
}
impl Model for Rec2 {
    fn from_model(v: &Value) -> Option<Self> {
        Some(Rec2 { a: i64::from_model(&v[1])?, b: String::from_model(&v[2])? })
    }
    fn to_model(&self) -> Value {
        json!(["rec2", self.a.to_model(), self.b.to_model()])
    }
}
impl Model for En2 {
    fn from_model(v: &Value) -> Option<Self> {
        match v[1].as_i64()? {
            0 => Some(En2::Dot),
            1 => Some(En2::Rect { width: i64::from_model(&v[2][0])?, height: i64::from_model(&v[2][1])? }),
            2 => Some(En2::Label { id: i64::from_model(&v[2][0])?, text: String::from_model(&v[2][1])? }),
            _ => None,
        }
    }
    fn to_model(&self) -> Value {
        match self {
            En2::Dot => json!(["en2", 0, []]),
            En2::Rect { width, height } => json!(["en2", 1, [width.to_model(), height.to_model()]]),
            En2::Label { id, text } => json!(["en2", 2, [id.to_model(), text.to_model()]]),
        }
    }
}
impl Model for En {
    fn from_model(v: &Value) -> Option<Self> {
        match v[1].as_i64()? {
            0 => Some(En::Unit),
            1 => Some(En::One(i64::from_model(&v[2][0])?)),
            2 => Some(En::Two(String::from_model(&v[2][0])?, f64::from_model(&v[2][1])?)),
            _ => None,
        }
    }
    fn to_model(&self) -> Value {
        match self {
            En::Unit => json!(["en", 0, []]),
            En::One(n) => json!(["en", 1, [n.to_model()]]),
            En::Two(s, f) => json!(["en", 2, [s.to_model(), f.to_model()]]),
        }
    }
}

/// the VM value as compiled Gluon code sees it
fn project(v: Variants, depth: usize) -> Value {
    if depth > 64 {
        return json!(["TooDeep"]);
    }
    match v.as_ref() {
        ValueRef::Int(i) => json!(["Int", i.to_string()]),
        ValueRef::Float(f) => json!(["Float", format!("{:016x}", f.to_bits())]),
        ValueRef::Byte(b) => json!(["Byte", b.to_string()]),
        ValueRef::String(s) => json!(["String", s]),
        ValueRef::Data(d) => {
            if d.len() == 0 {
                json!(["Tag", d.tag()])
            } else {
                json!(["Data", d.tag(), (0..d.len()).map(|i| project(d.get_variant(i).unwrap(), depth + 1)).collect::<Vec<_>>()])
            }
        }
        ValueRef::Array(a) => json!(["Array", a.iter().map(|x| project(x, depth + 1)).collect::<Vec<_>>()]),
        ValueRef::Userdata(_) => json!(["Userdata"]),
        ValueRef::Thread(_) => json!(["Thread"]),
        ValueRef::Closure(_) => json!(["Closure"]),
        ValueRef::Internal => json!(["Internal"]),
    }
}

fn fresh_vm() -> RootedThread {
    let vm = new_vm(&Settings::default());
    vm.load_script("mtypes", TYPES).expect("types");
    vm.load_script("mdrv", "{ id = \\x -> x }").expect("driver");
    // VmType for BTreeMap looks std.map.Map up and unwraps: the module must have been loaded by the embedder
    vm.run_expr::<OpaqueValue<RootedThread, gluon::vm::api::Hole>>("pre", "let _ = import! std.map\nlet _ = import! std.types\n()").expect("std.map");
    vm
}

struct Holder {
    vm: RootedThread,
    globals: Option<String>,
    rebuilt: usize,
}
impl Holder {
    fn rebuild(&mut self) {
        self.vm = fresh_vm();
        self.rebuilt += 1;
        if let Some(src) = &self.globals {
            let _ = self.vm.load_script("mglob", src);
        }
    }
}

/// runs `f`; a panic is data ("panic: ..") and costs a new VM, because the context lock is poisoned by it
fn guarded<F: FnOnce(&Thread) -> Value>(h: &mut Holder, f: F) -> Value {
    let r = {
        let vm: &Thread = &h.vm;
        std::panic::catch_unwind(std::panic::AssertUnwindSafe(|| f(vm)))
    };
    match r {
        Ok(v) => v,
        Err(p) => {
            let msg = panic_message(&p);
            let loc = LAST_PANIC_LOC.with(|l| l.borrow().clone());
            h.rebuild();
            json!({"panic": msg, "at": loc})
        }
    }
}

fn run_type<T>(h: &mut Holder, job: &Value) -> Value
where
    T: Model + Clone + Debug + VmType + Send + Sync + 'static,
    T: for<'vm> Pushable<'vm> + for<'vm, 'value> Getable<'vm, 'value>,
    T: serde::Serialize + serde::de::DeserializeOwned,
    T::Type: Sized,
{
    let mut out = Vec::new();
    let empty = Vec::new();
    let lits = job["lits"].as_array().unwrap_or(&empty).clone();
    for (i, mv) in job["values"].as_array().unwrap_or(&empty).iter().enumerate() {
        let v = match T::from_model(mv) {
            Some(v) => v,
            None => {
                out.push(json!({"error": "value term not understood"}));
                continue;
            }
        };
        let mut r = serde_json::Map::new();
        eprintln!("value {} of this job", i);
        // 1. directly: Pushable, then Getable on the pushed value
        let v1 = v.clone();
        r.insert("direct".into(), guarded(h, move |vm| match v1.marshal::<RootedThread>(vm) {
            Ok(rooted) => {
                let rep = project(rooted.get_variant(), 0);
                let back = T::from_value(vm, rooted.get_variant()).to_model();
                let de = match gluon::vm::api::de::from_value::<T>(vm, rooted.get_variant(), &T::make_type(vm)) {
                    Ok(x) => x.to_model(),
                    Err(e) => json!({"error": e.to_string()}),
                };
                json!({"rep": rep, "back": back, "de": de})
            }
            Err(e) => json!({"error": e.to_string()}),
        }));
        // 2. through a Gluon function
        let v2 = v.clone();
        r.insert("function".into(), guarded(h, move |vm| {
            let f: Result<FunctionRef<fn(T) -> T>, _> = vm.get_global("mdrv.id");
            match f {
                Ok(mut f) => match f.call(v2) {
                    Ok(back) => json!({"back": back.to_model()}),
                    Err(e) => json!({"error": e.to_string()}),
                },
                Err(e) => json!({"error": format!("get_global: {}", e)}),
            }
        }));
        // 3. the value the Gluon compiler builds for the same literal, and Getable on it
        if let Some(src) = lits.get(i).and_then(|l| l.as_str()) {
            let src = src.to_string();
            r.insert("literal".into(), guarded(h, move |vm| match vm.run_expr::<OpaqueValue<RootedThread, T>>("lit", &src) {
                Ok((val, _)) => json!({"rep": project(val.get_variant(), 0), "back": T::from_value(vm, val.get_variant()).to_model()}),
                Err(e) => json!({"error": e.to_string().lines().take(6).collect::<Vec<_>>().join(" | ")}),
            }));
        }
        // 4. the serde bridge: Ser pushes, De reads what Ser pushed
        let v3 = v.clone();
        r.insert("serde".into(), guarded(h, move |vm| match Ser(v3).marshal::<RootedThread>(vm) {
            Ok(rooted) => {
                let rep = project(rooted.get_variant(), 0);
                let typ = T::make_type(vm);
                let r = std::panic::catch_unwind(std::panic::AssertUnwindSafe(|| gluon::vm::api::de::from_value::<T>(vm, rooted.get_variant(), &typ)));
                let back = match r {
                    Ok(Ok(x)) => x.to_model(),
                    Ok(Err(e)) => json!({"error": e.to_string()}),
                    Err(p) => json!({"panic": panic_message(&p)}),
                };
                json!({"rep": rep, "back": back})
            }
            Err(e) => json!({"error": e.to_string()}),
        }));
        // 5. the bridge through a Gluon function, as an embedder uses it
        let v4 = v.clone();
        r.insert("serde_function".into(), guarded(h, move |vm| {
            let f: Result<FunctionRef<fn(Ser<T>) -> De<T>>, _> = vm.get_global("mdrv.id");
            match f {
                Ok(mut f) => match f.call(Ser(v4)) {
                    Ok(De(back)) => json!({"back": back.to_model()}),
                    Err(e) => json!({"error": e.to_string()}),
                },
                Err(e) => json!({"error": format!("get_global: {}", e)}),
            }
        }));
        out.push(Value::Object(r));
    }
    json!(out)
}

macro_rules! types {
    ( vals { $( $name:expr => $t:ty ),* $(,)? } fns { $( $fname:expr => $ft:ty ),* $(,)? } ) => {
        fn dispatch_vals(name: &str, h: &mut Holder, job: &Value) -> Option<Value> {
            match name {
                $( $name => Some(run_type::<$t>(h, job)), )*
                _ => None,
            }
        }
        fn dispatch_sig(name: &str, h: &mut Holder, global: &str) -> Option<Value> {
            let global = global.to_string();
            match name {
                $( $name => Some(guarded(h, move |vm| match vm.get_global::<$t>(&global) {
                    Ok(v) => json!({"accepted": true, "value": v.to_model()}),
                    Err(e) => json!({"accepted": false, "error": e.to_string().lines().next().unwrap_or("").to_string()}),
                })), )*
                $( $fname => Some(guarded(h, move |vm| match vm.get_global::<$ft>(&global) {
                    Ok(_) => json!({"accepted": true}),
                    Err(e) => json!({"accepted": false, "error": e.to_string().lines().next().unwrap_or("").to_string()}),
                })), )*
                _ => None,
            }
        }
        fn supported() -> Vec<&'static str> {
            vec![ $( $name, )* $( $fname, )* ]
        }
    };
}

types! {
    vals {
        "int" => i64, "float" => f64, "byte" => u8, "char" => char, "str" => String, "bool" => bool, "unit" => (),
        "rec" => Rec, "en" => En, "rec2" => Rec2, "en2" => En2,
        "opt(rec2)" => Option<Rec2>, "opt(en2)" => Option<En2>, "vec(rec2)" => Vec<Rec2>, "vec(en2)" => Vec<En2>,
        "opt(int)" => Option<i64>, "opt(float)" => Option<f64>, "opt(byte)" => Option<u8>, "opt(char)" => Option<char>,
        "opt(str)" => Option<String>, "opt(bool)" => Option<bool>, "opt(unit)" => Option<()>, "opt(rec)" => Option<Rec>, "opt(en)" => Option<En>,
        "vec(int)" => Vec<i64>, "vec(float)" => Vec<f64>, "vec(byte)" => Vec<u8>, "vec(char)" => Vec<char>,
        "vec(str)" => Vec<String>, "vec(bool)" => Vec<bool>, "vec(rec)" => Vec<Rec>, "vec(en)" => Vec<En>,
        "res(int,str)" => Result<i64, String>, "res(str,str)" => Result<String, String>, "res(float,str)" => Result<f64, String>,
        "map(int)" => BTreeMap<String, i64>, "map(str)" => BTreeMap<String, String>, "map(float)" => BTreeMap<String, f64>,
        "tup(int,str)" => (i64, String), "tup(float,bool)" => (f64, bool), "tup(str,byte)" => (String, u8),
        "opt(opt(int))" => Option<Option<i64>>, "opt(vec(int))" => Option<Vec<i64>>, "opt(tup(int,str))" => Option<(i64, String)>,
        "opt(res(int,str))" => Option<Result<i64, String>>,
        "vec(vec(int))" => Vec<Vec<i64>>, "vec(opt(int))" => Vec<Option<i64>>, "vec(opt(str))" => Vec<Option<String>>,
        "vec(tup(int,str))" => Vec<(i64, String)>, "vec(res(int,str))" => Vec<Result<i64, String>>,
        "res(vec(int),str)" => Result<Vec<i64>, String>, "res(opt(int),str)" => Result<Option<i64>, String>, "res(int,int)" => Result<i64, i64>,
        "tup(int,tup(float,bool))" => (i64, (f64, bool)), "tup(vec(int),opt(str))" => (Vec<i64>, Option<String>),
        "map(vec(int))" => BTreeMap<String, Vec<i64>>, "map(opt(int))" => BTreeMap<String, Option<i64>>,
        "vec(vec(vec(int)))" => Vec<Vec<Vec<i64>>>, "opt(vec(opt(int)))" => Option<Vec<Option<i64>>>, "vec(opt(vec(str)))" => Vec<Option<Vec<String>>>,
        "opt(opt(opt(int)))" => Option<Option<Option<i64>>>, "res(vec(opt(int)),str)" => Result<Vec<Option<i64>>, String>,
        "vec(tup(int,opt(str)))" => Vec<(i64, Option<String>)>, "opt(tup(vec(int),opt(str)))" => Option<(Vec<i64>, Option<String>)>,
        "map(vec(opt(int)))" => BTreeMap<String, Vec<Option<i64>>>, "vec(map(int))" => Vec<BTreeMap<String, i64>>, "opt(map(str))" => Option<BTreeMap<String, String>>,
    }
    fns {
        "fn(int,int)" => FunctionRef<fn(i64) -> i64>, "fn(str,int)" => FunctionRef<fn(String) -> i64>,
        "fn(int,str)" => FunctionRef<fn(i64) -> String>, "fn(str,str)" => FunctionRef<fn(String) -> String>,
        "fn(int,fn(int,int))" => FunctionRef<fn(i64, i64) -> i64>,
    }
}

pub fn cmd(_args: &[String]) {
    let verbose = std::env::var("GVH_VERBOSE").is_ok();
    std::panic::set_hook(Box::new(move |info| {
        if verbose {
            eprintln!("{}\n{}", info, std::backtrace::Backtrace::force_capture());
        }
        let loc = info.location().map(|l| format!("{}:{}", l.file(), l.line())).unwrap_or_default();
        LAST_PANIC_LOC.with(|c| *c.borrow_mut() = loc);
    }));
    let mut h = Holder { vm: fresh_vm(), globals: None, rebuilt: 0 };
    serve(|job| {
        let op = job["op"].as_str().unwrap_or("");
        match op {
            "supported" => json!({"id": job["id"], "status": "ok", "supported": supported()}),
            "globals" => {
                let src = job["source"].as_str().unwrap_or("").to_string();
                h.globals = Some(src.clone());
                h.rebuild();
                match h.vm.load_script("mglob", &src) {
                    Ok(()) => json!({"id": job["id"], "status": "ok"}),
                    Err(e) => json!({"id": job["id"], "status": "error", "msg": e.to_string()}),
                }
            }
            "vals" => {
                let name = job["type"].as_str().unwrap_or("");
                match dispatch_vals(name, &mut h, job) {
                    Some(r) => json!({"id": job["id"], "status": "ok", "results": r, "rebuilt": h.rebuilt}),
                    None => json!({"id": job["id"], "status": "unsupported"}),
                }
            }
            "fields" => {
                // Gluon code reading the fields of a value pushed by the derived Pushable, by name
                let src = "let { Rec2, En2 } = import! mtypes\nlet geta r : Rec2 -> Int = r.a\nlet getb r : Rec2 -> String = r.b\nlet width e : En2 -> Int =\n    match e with\n    | Rect r -> r.width\n    | _ -> 0\nlet text e : En2 -> String =\n    match e with\n    | Label r -> r.text\n    | _ -> \"\"\n{ geta, getb, width, text }\n";
                h.globals = None;
                h.rebuild();
                if let Err(e) = h.vm.load_script("mfields", src) {
                    return json!({"id": job["id"], "status": "error", "msg": e.to_string()});
                }
                let a = guarded(&mut h, |vm| match vm.get_global::<FunctionRef<fn(Rec2) -> i64>>("mfields.geta") {
                    Ok(mut f) => match f.call(Rec2 { a: 41, b: "bee".into() }) { Ok(x) => json!(x), Err(e) => json!({"error": e.to_string()}) },
                    Err(e) => json!({"error": e.to_string()}),
                });
                let _ = h.vm.load_script("mfields", src);
                let b = guarded(&mut h, |vm| match vm.get_global::<FunctionRef<fn(Rec2) -> String>>("mfields.getb") {
                    Ok(mut f) => match f.call(Rec2 { a: 41, b: "bee".into() }) { Ok(x) => json!(x), Err(e) => json!({"error": e.to_string()}) },
                    Err(e) => json!({"error": e.to_string()}),
                });
                let _ = h.vm.load_script("mfields", src);
                let w = guarded(&mut h, |vm| match vm.get_global::<FunctionRef<fn(En2) -> i64>>("mfields.width") {
                    Ok(mut f) => match f.call(En2::Rect { width: 7, height: 2 }) { Ok(x) => json!(x), Err(e) => json!({"error": e.to_string()}) },
                    Err(e) => json!({"error": e.to_string()}),
                });
                let _ = h.vm.load_script("mfields", src);
                let t = guarded(&mut h, |vm| match vm.get_global::<FunctionRef<fn(En2) -> String>>("mfields.text") {
                    Ok(mut f) => match f.call(En2::Label { id: 5, text: "tee".into() }) { Ok(x) => json!(x), Err(e) => json!({"error": e.to_string()}) },
                    Err(e) => json!({"error": e.to_string()}),
                });
                json!({"id": job["id"], "status": "ok", "geta": a, "getb": b, "width": w, "text": t, "expected": {"geta": 41, "getb": "bee", "width": 7, "text": "tee"}})
            }
            "sig" => {
                if h.globals.is_none() {
                    if let Some(src) = job["source"].as_str() {
                        h.globals = Some(src.to_string());
                        h.rebuild();
                    }
                }
                let mut out = Vec::new();
                for req in job["requests"].as_array().cloned().unwrap_or_default() {
                    let r = dispatch_sig(req["rust"].as_str().unwrap_or(""), &mut h, req["global"].as_str().unwrap_or(""));
                    out.push(r.unwrap_or(json!({"unsupported": true})));
                }
                json!({"id": job["id"], "status": "ok", "results": out})
            }
            _ => json!({"id": job["id"], "status": "bad-op"}),
        }
    });
}

//! The `host` extern module: observation log, tick counter and a stash (all per OS thread)
use std::cell::RefCell;
use std::collections::HashMap;

use gluon::import::add_extern_module;
use gluon::vm::api::generic::A;
use gluon::vm::api::{OpaqueValue, IO};
use gluon::vm::thread::RootedThread;
use gluon::vm::types::VmInt;
use gluon::vm::ExternModule;
use gluon::Thread;

pub static GLOBAL_LOG_ON: std::sync::atomic::AtomicBool = std::sync::atomic::AtomicBool::new(false);
pub static GLOBAL_LOG: std::sync::Mutex<Vec<(i64, i64, i64)>> = std::sync::Mutex::new(Vec::new());

thread_local! {
    pub static STREAM: std::cell::Cell<bool> = std::cell::Cell::new(false);
    pub static LOG: RefCell<Vec<(i64, i64, i64)>> = RefCell::new(Vec::new());
    pub static STASH: RefCell<HashMap<i64, OpaqueValue<RootedThread, A>>> = RefCell::new(HashMap::new());
}

fn stream(t: i64, i: i64, v: i64) {
    if STREAM.with(|s| s.get()) {
        use std::io::Write;
        let o = std::io::stdout();
        let mut o = o.lock();
        let _ = writeln!(o, "{{\"log\":[{},{},{}]}}", t, i, v);
        let _ = o.flush();
    }
}

fn host_log(t: VmInt, i: VmInt, v: VmInt) -> IO<()> {
    stream(t, i, v);
    LOG.with(|l| l.borrow_mut().push((t, i, v)));
    IO::Value(())
}

/// Pure-typed effect: logs `(-1, l, v)` and returns `v`
fn host_tick(l: VmInt, v: VmInt) -> VmInt {
    if GLOBAL_LOG_ON.load(std::sync::atomic::Ordering::Relaxed) {
        GLOBAL_LOG.lock().unwrap().push((-1, l, v));
        return v;
    }
    stream(-1, l, v);
    LOG.with(|lg| lg.borrow_mut().push((-1, l, v)));
    v
}

/// Effect used by the language-level checks: logs `(-2, 0, v)` and returns `v`
fn host_eff(v: VmInt) -> VmInt {
    LOG.with(|lg| lg.borrow_mut().push((-2, 0, v)));
    v
}

fn host_stash(i: VmInt, v: OpaqueValue<RootedThread, A>) -> OpaqueValue<RootedThread, A> {
    STASH.with(|s| s.borrow_mut().insert(i, v.clone()));
    v
}

fn host_peek(i: VmInt) -> OpaqueValue<RootedThread, A> {
    STASH.with(|s| s.borrow().get(&i).cloned().expect("peek before stash"))
}

pub fn take_log() -> Vec<(i64, i64, i64)> {
    LOG.with(|l| std::mem::take(&mut *l.borrow_mut()))
}

/// Also print every log entry as it happens (so that a hang or crash keeps its partial log)
pub fn set_stream(on: bool) {
    STREAM.with(|s| s.set(on));
}

pub fn clear() {
    LOG.with(|l| l.borrow_mut().clear());
    STASH.with(|s| s.borrow_mut().clear());
}

pub fn install(vm: &Thread) {
    add_extern_module(vm, "host", |thread| {
        ExternModule::new(
            thread,
            record! {
                log => primitive!(3, host_log),
                tick => primitive!(2, host_tick),
                eff => primitive!(1, host_eff),
                stash => primitive!(2, host_stash),
                peek => primitive!(1, host_peek),
            },
        )
    });
}

//! Program runner used by the language-level checks (C01, C02, C04, C05, C12, C16): runs generated gluon
//! programs under given compiler settings and reports value rendering, type, failure text and effect log.
use std::collections::HashMap;
use std::panic::{catch_unwind, AssertUnwindSafe};

use gluon::vm::verif;
use gluon::{RootedThread, ThreadExt};
#[allow(unused_imports)]
use gluon::vm::thread::ThreadInternal;
use serde_json::{json, Value};

use crate::common::*;
use crate::host;

fn settings_of(job: &Value) -> (Settings, String) {
    let b = |k: &str, d: bool| job.get(k).and_then(|v| v.as_bool()).unwrap_or(d);
    let s = Settings {
        prelude: b("prelude", true),
        optimize: b("optimize", true),
        debug: b("debug", true),
        run_io: b("run_io", false),
        full_metadata: b("full_metadata", false),
    };
    let key = format!("{}{}{}{}{}", s.prelude as u8, s.optimize as u8, s.debug as u8, s.run_io as u8, s.full_metadata as u8);
    (s, key)
}

pub fn fresh(s: &Settings) -> RootedThread {
    let vm = new_vm(s);
    host::install(&vm);
    vm
}

/// Runs one source text; returns (status, value, type, message)
pub fn run_source(vm: &RootedThread, name: &str, src: &str, bytecode: bool) -> (String, String, String, String) {
    let r = catch_unwind(AssertUnwindSafe(|| {
        if bytecode {
            crate::bytecode::roundtrip(vm, name, src)
        } else {
            run_any(vm, name, src)
        }
    }));
    match r {
        Ok(Ok((v, t))) => ("ok".into(), v, t, String::new()),
        Ok(Err(e)) => ("err".into(), String::new(), String::new(), e),
        Err(p) => ("panic".into(), String::new(), String::new(), panic_message(&p)),
    }
}

/// job: {"id", "history": [{"vm": v, "prog": p, "src": ..., settings...}, ...]}: the steps are run in order, each on
/// the VM with the given number (created on first use, kept for the whole history)
fn run_history(job: &Value) -> Value {
    let mut vms: HashMap<u64, RootedThread> = HashMap::new();
    let mut obs = Vec::new();
    for step in job["history"].as_array().cloned().unwrap_or_default() {
        let v = step["vm"].as_u64().unwrap_or(1);
        let (s, _) = settings_of(&step);
        let vm = vms.entry(v).or_insert_with(|| fresh(&s)).clone();
        apply_settings(&vm, &s);
        host::clear();
        crate::common::LAST_PANIC_LOC.with(|c| c.borrow_mut().clear());
        let src = step["src"].as_str().unwrap_or("");
        let (status, value, typ, msg) = run_source(&vm, "prog", src, false);
        let log: Vec<i64> = host::take_log().into_iter().filter(|e| e.0 == -2).map(|e| e.2).collect();
        let (frames, slen) = if status == "panic" {
            (0, 0)
        } else {
            let i = vm.verif_stack_info();
            (i.0, i.1)
        };
        let panicked = status == "panic";
        obs.push(json!({"vm": v, "prog": step["prog"], "status": status, "value": value, "type": typ, "msg": msg,
                        "class": error_class(&msg), "log": log, "frames": frames, "slen": slen,
                        "panic_at": crate::common::LAST_PANIC_LOC.with(|c| c.borrow().clone())}));
        if panicked {
            if let Some(old) = vms.remove(&v) {
                std::mem::forget(old);
            }
        }
    }
    for (_, vm) in vms.drain() {
        drop(vm);
    }
    json!({"id": job["id"], "status": "ok", "obs": obs})
}

/// job: {"id","src", settings..., "stress": k, "fresh": bool, "bytecode": bool}
pub fn cmd(_args: &[String]) {
    std::panic::set_hook(Box::new(|info| {
        // keep the location of the panic: it keys findings
        let loc = info.location().map(|l| format!("{}:{}", l.file(), l.line())).unwrap_or_default();
        crate::common::LAST_PANIC_LOC.with(|c| *c.borrow_mut() = loc);
    }));
    let mut vms: HashMap<String, (RootedThread, usize)> = HashMap::new();
    serve(|job| {
        if job.get("history").is_some() {
            return run_history(job);
        }
        let src = job["src"].as_str().unwrap_or("");
        let (s, key) = settings_of(job);
        let stress = job.get("stress").and_then(|v| v.as_u64()).unwrap_or(0) as usize;
        let want_fresh = job.get("fresh").and_then(|v| v.as_bool()).unwrap_or(false);
        let bytecode = job.get("bytecode").and_then(|v| v.as_bool()).unwrap_or(false);
        let mode = job.get("mode").and_then(|v| v.as_str()).unwrap_or("run").to_string();
        let reuse = match vms.get(&key) {
            Some((_, n)) => *n < 200 && !want_fresh,
            None => false,
        };
        if !reuse {
            if let Some((old, _)) = vms.remove(&key) {
                drop(old);
            }
            vms.insert(key.clone(), (fresh(&s), 0));
        }
        let entry = vms.get_mut(&key).unwrap();
        entry.1 += 1;
        host::clear();
        if stress > 0 {
            verif::set_quarantine(true);
            verif::set_stress(stress);
        }
        crate::common::LAST_PANIC_LOC.with(|c| c.borrow_mut().clear());
        // resource limits (fresh VMs only make sense here) and event recording
        let stack_limit = job.get("stack_limit").and_then(|v| v.as_u64());
        let memory_limit = job.get("memory_limit").and_then(|v| v.as_u64());
        let memory_limit_rel = job.get("memory_limit_rel").and_then(|v| v.as_u64());
        let want_events = job.get("events").and_then(|v| v.as_str()).map(|s| s.to_string());
        let interrupt_ms = job.get("interrupt_ms").and_then(|v| v.as_u64());
        if let Some(pre) = job.get("warmup").and_then(|v| v.as_str()) {
            // compile / load what the program needs before limits and recording start
            let vm = entry.0.clone();
            let _ = catch_unwind(AssertUnwindSafe(|| run_any(&vm, "warmup", pre)));
            host::clear();
        }
        {
            let vm = entry.0.clone();
            if let Some(l) = stack_limit {
                vm.context().set_max_stack_size(l as u32);
            }
            if want_events.is_some() {
                vm.collect();
            }
            if let Some(l) = memory_limit {
                vm.set_memory_limit(l as usize);
            }
            if let Some(l) = memory_limit_rel {
                vm.set_memory_limit(vm.allocated_memory() + l as usize);
            }
        }
        let base_info = entry.0.verif_stack_info();
        verif::take_peak(0);
        if want_events.is_some() {
            let _ = verif::take_events();
            verif::set_events(true);
        }
        let interrupter = interrupt_ms.map(|ms| {
            let vm = entry.0.clone();
            std::thread::spawn(move || {
                std::thread::sleep(std::time::Duration::from_millis(ms));
                vm.interrupt();
            })
        });
        let started = std::time::Instant::now();
        let instr0 = verif::instructions();
        // modules the program imports: [[name, source], ...] registered with load_script semantics (add_module)
        let mut module_err = None;
        if let Some(mods) = job.get("modules").and_then(|v| v.as_array()) {
            for m in mods {
                let (name, msrc) = (m[0].as_str().unwrap_or(""), m[1].as_str().unwrap_or(""));
                let vm = entry.0.clone();
                let r = catch_unwind(AssertUnwindSafe(|| vm.load_script(name, msrc)));
                match r {
                    Ok(Ok(())) => (),
                    Ok(Err(e)) => module_err = Some(("err".to_string(), format!("module {}: {}", name, e))),
                    Err(p) => module_err = Some(("panic".to_string(), format!("module {}: {}", name, panic_message(&p)))),
                }
            }
        }
        let (status, value, typ, msg) = if let Some((st, m)) = module_err {
            (st, String::new(), String::new(), m)
        } else { match mode.as_str() {
            // compile to bytecode and return the serialised text
            "compile" => {
                let vm = entry.0.clone();
                match catch_unwind(AssertUnwindSafe(|| crate::bytecode::compile(&vm, "prog", src))) {
                    Ok(Ok(json)) => ("ok".to_string(), json, String::new(), String::new()),
                    Ok(Err(e)) => ("err".to_string(), String::new(), String::new(), e),
                    Err(p) => ("panic".to_string(), String::new(), String::new(), panic_message(&p)),
                }
            }
            // front end only (C09): typecheck, report every error with its span and whether the errors render
            "frontend" => {
                let vm = entry.0.clone();
                match catch_unwind(AssertUnwindSafe(|| crate::frontend::check(&vm, src))) {
                    Ok(v) => ("ok".to_string(), v.to_string(), String::new(), String::new()),
                    Err(p) => ("panic".to_string(), String::new(), String::new(), panic_message(&p)),
                }
            }
            // editor queries (C20) at every `step`-th byte offset
            "editor" => {
                let vm = entry.0.clone();
                let step = job.get("step").and_then(|v| v.as_u64()).unwrap_or(1) as usize;
                match catch_unwind(AssertUnwindSafe(|| crate::editor::query(&vm, src, step))) {
                    Ok(v) => ("ok".to_string(), v.to_string(), String::new(), String::new()),
                    Err(p) => ("panic".to_string(), String::new(), String::new(), panic_message(&p)),
                }
            }
            // value serialisation (C12): the program's value through SeSeed / DeSeed, into this VM and a fresh one, with
            // a collection between loading and using it
            "valueser" => {
                // a VM of its own: what earlier programs left in a long-lived VM is not part of this round trip
                let vm = new_vm(&s);
                crate::host::install(&vm);
                match catch_unwind(AssertUnwindSafe(|| crate::bytecode::value_roundtrip(&vm, src, &s))) {
                    Ok(v) => ("ok".to_string(), v.to_string(), String::new(), String::new()),
                    Err(p) => ("panic".to_string(), String::new(), String::new(), panic_message(&p)),
                }
            }
            // formatter (C10): the formatted text
            "format" => {
                let vm = entry.0.clone();
                match catch_unwind(AssertUnwindSafe(|| vm.format_expr(&mut gluon_format::Formatter::default(), "prog", src))) {
                    Ok(Ok(text)) => ("ok".to_string(), text, String::new(), String::new()),
                    Ok(Err(e)) => ("err".to_string(), String::new(), String::new(), e.to_string()),
                    Err(p) => ("panic".to_string(), String::new(), String::new(), panic_message(&p)),
                }
            }
            // parse only: dump of the AST (positions kept; the driver normalises)
            "parse" => match catch_unwind(AssertUnwindSafe(|| crate::parse::dump_raw(src))) {
                Ok(Ok(d)) => ("ok".to_string(), d, String::new(), String::new()),
                Ok(Err(e)) => ("err".to_string(), String::new(), String::new(), e),
                Err(p) => ("panic".to_string(), String::new(), String::new(), panic_message(&p)),
            },
            // typecheck only: the reported type of the expression
            "typecheck" => {
                let vm = entry.0.clone();
                match catch_unwind(AssertUnwindSafe(|| vm.typecheck_str("prog", src, None))) {
                    Ok(Ok((_, typ))) => ("ok".to_string(), String::new(), typ.to_string(), String::new()),
                    Ok(Err(e)) => ("err".to_string(), String::new(), String::new(), e.to_string()),
                    Err(p) => ("panic".to_string(), String::new(), String::new(), panic_message(&p)),
                }
            }
            // load (possibly damaged) serialised bytecode given in "src"
            "load" => {
                let vm = entry.0.clone();
                // the modules the bytecode refers to are loaded first (bytecode does not carry its dependencies)
                if let Some(pre) = job.get("pre").and_then(|v| v.as_str()) {
                    let _ = catch_unwind(AssertUnwindSafe(|| run_any(&vm, "pre", pre)));
                    host::clear();
                }
                match catch_unwind(AssertUnwindSafe(|| crate::bytecode::run_json(&vm, "prog", src))) {
                    Ok(Ok((v, t))) => ("ok".to_string(), v, t, String::new()),
                    Ok(Err(e)) => ("err".to_string(), String::new(), String::new(), e),
                    Err(p) => ("panic".to_string(), String::new(), String::new(), panic_message(&p)),
                }
            }
            _ => run_source(&entry.0, "prog", src, bytecode),
        } };
        verif::set_stress(0);
        verif::set_events(false);
        let elapsed_ms = started.elapsed().as_millis() as u64;
        let instructions = verif::instructions() - instr0;
        if let Some(h) = interrupter {
            let _ = h.join();
        }
        let mut events: Vec<Value> = Vec::new();
        if let Some(kind) = &want_events {
            events.push(json!({"ev": "base", "frames": base_info.0, "slen": base_info.1, "before": base_info.2}));
            for line in verif::take_events() {
                if let Ok(v) = serde_json::from_str::<Value>(&line) {
                    let ev = v["ev"].as_str().unwrap_or("");
                    let is_gc = matches!(ev, "alloc" | "free" | "oom" | "collect_begin" | "collect_end");
                    if (kind == "frames" && !is_gc) || (kind == "gc" && is_gc) || kind == "all" {
                        events.push(v);
                    }
                }
            }
        }
        let after_info = if status == "panic" { (0, 0, 0, 0, 0) } else { entry.0.verif_stack_info() };
        let log: Vec<i64> = host::take_log().into_iter().filter(|e| e.0 == -2).map(|e| e.2).collect();
        let loc = crate::common::LAST_PANIC_LOC.with(|c| c.borrow().clone());
        if status != "ok" {
            // do not reuse a VM after a failure (whether it stays usable is what C06 checks)
            if let Some((old, _)) = vms.remove(&key) {
                if status == "panic" {
                    std::mem::forget(old);
                }
            }
        }
        json!({"id": job["id"], "status": status, "value": value, "type": typ, "msg": msg, "class": error_class(&msg),
               "log": log, "panic_at": loc, "events": events, "elapsed_ms": elapsed_ms, "instructions": instructions,
               "frames": after_info.0, "slen": after_info.1, "allocated": after_info.2, "limit": after_info.3,
               "peak": verif::take_peak(0)})
    });
    for (_, (vm, _)) in vms.drain() {
        std::mem::forget(vm);
    }
}

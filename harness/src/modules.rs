//! C15 replay: edit histories of a module graph executed on one long-lived VM
use std::panic::{catch_unwind, AssertUnwindSafe};

use gluon::query::CompilationBase;
use gluon::ThreadExt;
use serde_json::{json, Value};

use crate::common::*;
use crate::host;

/// job: {"id", "history": [{"op": "edit", "name", "src"} | {"op": "eval", "name"}]}
pub fn cmd(_args: &[String]) {
    std::panic::set_hook(Box::new(|_| {}));
    serve(|job| {
        let s = Settings::default();
        let vm = new_vm(&s);
        host::install(&vm);
        let mut out = Vec::new();
        for (i, step) in job["history"].as_array().cloned().unwrap_or_default().iter().enumerate() {
            println!("{{\"log\":[{}]}}", i);
            let name = step["name"].as_str().unwrap_or("").to_string();
            match step["op"].as_str().unwrap_or("") {
                "edit" => {
                    let src = step["src"].as_str().unwrap_or("").to_string();
                    let r = catch_unwind(AssertUnwindSafe(|| vm.get_database_mut().add_module(name.clone(), &src)));
                    out.push(json!({"status": if r.is_ok() { "ok" } else { "panic" }}));
                }
                "eval" => {
                    host::clear();
                    let src = format!("import! {}", name);
                    let r = catch_unwind(AssertUnwindSafe(|| run_any(&vm, "main", &src)));
                    let ticks: Vec<i64> = host::take_log().into_iter().filter(|e| e.0 == -1).map(|e| e.1).collect();
                    let v: Value = match r {
                        Ok(Ok((v, t))) => json!({"status": "ok", "value": v, "type": t, "msg": "", "ticks": ticks}),
                        Ok(Err(e)) => json!({"status": "err", "value": "", "type": "", "msg": e, "ticks": ticks}),
                        Err(p) => json!({"status": "panic", "value": "", "type": "", "msg": panic_message(&p), "ticks": ticks}),
                    };
                    let panicked = v["status"] == "panic";
                    out.push(v);
                    if panicked {
                        break;
                    }
                }
                _ => (),
            }
        }
        std::mem::forget(vm);
        json!({"id": job["id"], "status": "ok", "steps": out})
    });
}
